"""Tree recipes: generation, materialisation on the scratch file system and the
ground-truth snapshot read back from the OS (never from the recipe)."""
import hashlib
import os
import socket
import stat

# --- name alphabets ------------------------------------------------------------------------

SAFE_WORDS = ["a", "b", "c", "data", "src", "lib", "doc", "x1", "x2", "tmp", "zeta", "alpha",
              "Beta", "GAMMA", "q", "r9", "main", "test", "util", "node"]
EXTS = ["", "", ".txt", ".rs", ".c", ".md", ".TXT", ".tar.gz", ".zip", ".png", ".o", ".old", ".py"]
ODD_NAMES = ["with space", "dash-name", "under_score", ".hidden", ".dot.conf", "UPPER", "MiXeD.Txt",
             "ünï", "日本", "a.b.c", "trailing.", "x y z.txt", "#hash", "semi;colon", "plus+one",
             "at@sign", "tilde~", "eq=sign", "back\\slash", "win\\dir", "-leading-dash", "trailing blank ", "new\nline", "q'uote",
             "n" * 200, "ü" * 120]


def gen_name(rng, odd=0.25, used=None):
    for _ in range(100):
        if rng.random() < odd:
            n = rng.choice(ODD_NAMES)
            if rng.random() < 0.3:
                n = n + str(rng.randrange(10))
        else:
            n = rng.choice(SAFE_WORDS) + (str(rng.randrange(100)) if rng.random() < 0.5 else "") \
                + rng.choice(EXTS)
        if used is None or n not in used:
            if used is not None:
                used.add(n)
            return n
    raise RuntimeError("name space exhausted")


def gen_tree(rng, max_entries=40, max_depth=5, kinds=("file", "dir", "symlink", "fifo", "socket"),
             odd=0.25, dir_bias=0.35, special_p=0.12, content=None):
    """Returns a recipe: list of node dicts, parents before children.
    kinds limits which entry kinds may appear. content(rng) -> bytes for regular files."""
    n = rng.randint(1, max_entries)
    nodes = []
    dirs = [("", 0)]
    names = {"": set()}
    for _ in range(n):
        parent, d = rng.choice(dirs)
        name = gen_name(rng, odd, names[parent])
        path = name if not parent else parent + "/" + name
        r = rng.random()
        if r < dir_bias and d + 1 < max_depth and "dir" in kinds:
            nodes.append({"path": path, "kind": "dir"})
            dirs.append((path, d + 1))
            names[path] = set()
        elif r < dir_bias + special_p:
            k = rng.choice([k for k in kinds if k not in ("file", "dir")] or ["file"])
            node = {"path": path, "kind": k}
            if k == "symlink":
                # target: an existing node, a directory, or nowhere
                c = rng.random()
                if c < 0.4 and nodes:
                    t = rng.choice(nodes)["path"]
                    node["target"] = os.path.relpath(t, os.path.dirname(path) or ".")
                elif c < 0.6:
                    node["target"] = "nowhere-" + str(rng.randrange(100))
                elif c < 0.8 and len(dirs) > 1:
                    t = rng.choice(dirs[1:])[0]
                    node["target"] = os.path.relpath(t, os.path.dirname(path) or ".")
                else:
                    node["target"] = "."
            if k in ("chr", "blk"):
                node["rdev"] = (rng.randrange(1, 200), rng.randrange(0, 200))
            nodes.append(node)
        else:
            node = {"path": path, "kind": "file"}
            if content:
                node["content"] = content(rng)
            else:
                node["size"] = rng.choice([0, 0, 1, 2, 5, 9, 10, 50, 90, 100, 500, 1000, 1023, 1024, 1025,
                                           rng.randrange(0, 5000)])
            nodes.append(node)
    return nodes


def content_bytes(node):
    if "content" in node:
        c = node["content"]
        if isinstance(c, str):
            return c.encode("utf-8", "surrogateescape")
        if isinstance(c, list):  # JSON-able bytes
            return bytes(c)
        return c
    size = node.get("size", 0)
    if node.get("sparse"):
        return None
    # deterministic filler with newlines
    unit = b"0123456789abcde\n"
    return (unit * (size // len(unit) + 1))[:size]


def materialise(root, nodes):
    """Creates the recipe below `root` (an existing directory). Returns a list of nodes that could
    not be created (sandbox refused) - the caller counts these as inconclusive."""
    refused = []
    late = []
    for node in nodes:
        p = os.path.join(root, node["path"])
        k = node["kind"]
        try:
            if k == "dir":
                os.mkdir(p)
            elif k == "file":
                data = content_bytes(node)
                with open(p, "wb") as f:
                    if data is None:
                        f.truncate(node["size"])
                    else:
                        f.write(data)
            elif k == "symlink":
                os.symlink(node["target"], p)
            elif k == "fifo":
                os.mkfifo(p)
            elif k == "socket":
                s = socket.socket(socket.AF_UNIX, socket.SOCK_STREAM)
                try:
                    # AF_UNIX paths are limited to 108 bytes: bind relative to the directory
                    cwd = os.open(".", os.O_RDONLY)
                    try:
                        os.chdir(os.path.dirname(p))
                        base = os.path.basename(p)
                        if len(os.fsencode(base)) > 100:
                            # the name alone exceeds the limit: bind under a short name and rename
                            s.bind(".fsv-sock-tmp")
                            os.rename(".fsv-sock-tmp", base)
                        else:
                            s.bind(base)
                    finally:
                        os.fchdir(cwd)
                        os.close(cwd)
                finally:
                    s.close()
            elif k == "chr":
                os.mknod(p, stat.S_IFCHR | 0o600, os.makedev(*node["rdev"]))
            elif k == "blk":
                os.mknod(p, stat.S_IFBLK | 0o600, os.makedev(*node["rdev"]))
            else:
                raise ValueError(k)
        except (OSError, ValueError) as e:
            refused.append((node["path"], str(e)))
            continue
        if "xattrs" in node:
            for xn, xv in node["xattrs"].items():
                try:
                    os.setxattr(p, xn, xv if isinstance(xv, bytes) else bytes(xv), follow_symlinks=False)
                except OSError as e:
                    refused.append((node["path"], "xattr %s: %s" % (xn, e)))
        if "owner" in node and k != "symlink":
            try:
                os.chown(p, node["owner"][0], node["owner"][1])
            except OSError as e:
                refused.append((node["path"], "chown: %s" % e))
        late.append((p, node))
    # modes and times last (a directory's mtime changes when children are created;
    # a directory without w/x cannot be populated)
    for p, node in reversed(late):
        k = node["kind"]
        if "mode" in node and k != "symlink":
            try:
                os.chmod(p, node["mode"])
            except OSError as e:
                refused.append((node["path"], "chmod: %s" % e))
        if "mtime" in node:
            try:
                os.utime(p, (node["mtime"], node["mtime"]), follow_symlinks=False)
            except OSError as e:
                refused.append((node["path"], "utime: %s" % e))
    return refused


KIND_OF_FMT = {stat.S_IFREG: "file", stat.S_IFDIR: "dir", stat.S_IFLNK: "symlink", stat.S_IFIFO: "fifo",
               stat.S_IFSOCK: "socket", stat.S_IFCHR: "chr", stat.S_IFBLK: "blk"}


class Entry:
    __slots__ = ("rel", "abs", "name", "st", "kind", "level", "parent")

    def __init__(self, rel, abs_, st, level):
        self.rel = rel
        self.abs = abs_
        self.name = os.path.basename(rel)
        self.st = st
        self.kind = KIND_OF_FMT.get(stat.S_IFMT(st.st_mode), "other")
        self.level = level
        self.parent = os.path.dirname(rel)

    def __repr__(self):
        return "<%s %s L%d>" % (self.kind, self.rel, self.level)


def snapshot(root):
    """Ground truth: every entry below root (not root itself), symlinks not followed."""
    out = []

    def walk(absdir, rel, level):
        try:
            names = sorted(os.listdir(absdir))
        except OSError:
            return
        for n in names:
            a = os.path.join(absdir, n)
            r = n if not rel else rel + "/" + n
            st = os.lstat(a)
            e = Entry(r, a, st, level)
            out.append(e)
            if e.kind == "dir":
                walk(a, r, level + 1)

    walk(root, "", 1)
    return out


def file_digest(path, algo):
    h = hashlib.new(algo)
    with open(path, "rb") as f:
        while True:
            b = f.read(1 << 16)
            if not b:
                break
            h.update(b)
    return h.hexdigest()


def recipe_digest(nodes):
    h = hashlib.sha1()
    for n in nodes:
        h.update(repr(sorted((k, v if not isinstance(v, (bytes, bytearray)) else len(v))
                             for k, v in n.items())).encode())
    return h.hexdigest()[:12]


def shape_key(entries):
    """A hash of the tree's shape (kinds and nesting, names ignored) used for distinctness counts."""
    h = hashlib.sha1()
    for e in sorted(entries, key=lambda e: e.rel):
        h.update(("%s:%d:%s;" % (e.kind, e.level, e.parent.count("/"))).encode())
    return h.hexdigest()[:10]


def make_beyond_path_max(parent, rel_prefix_len, sizes=(0, 3, 7, 100, 4097)):
    """Builds, below the existing directory `parent`, a chain of directories and then files whose paths - as spelled relative to
    the directory the query is run from (rel_prefix_len = length of that spelling of `parent`) - exceed PATH_MAX (4096), while the
    deepest directory can still be listed. Works with relative operations only. Returns (relative path of the deepest directory
    below parent, {file name: size})."""
    seg = "n" * 180
    here = os.getcwd()
    made = {}
    depth = 0
    try:
        os.chdir(parent)
        while rel_prefix_len + (depth + 1) * (len(seg) + 1) < 4060:
            os.mkdir(seg)
            os.chdir(seg)
            depth += 1
        for k, sz in enumerate(sizes):
            nm = "f%d-" % k + "x" * 200
            with open(nm, "wb") as f:
                f.write(b"z" * sz)
            os.chmod(nm, 0o640 if k % 2 else 0o755)
            made[nm] = sz
    finally:
        os.chdir(here)
    return "/".join([seg] * depth), made
