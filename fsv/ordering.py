"""Shared by C05/C06/C19: trees with many ties, sort-key generators and the reference comparator."""
import datetime
import functools
import os

from . import tree

KEY_EXPRS = ["name", "ext", "path", "size", "uid", "hardlinks", "modified", "length(name)", "size + 1", "size % 7",
             "size - 1000", "gid", "mode", "dir", "size * 2", "inode", "year(modified)", "month(modified)", "day(modified)",
             "length(ext)", "lower(name)", "upper(ext)", "abs(size - 100)"]
NUMERIC = {"size", "uid", "gid", "hardlinks", "inode", "blocks", "length(name)", "size + 1", "size % 7", "size - 1000",
           "size * 2", "line_count", "year(modified)", "month(modified)", "day(modified)", "length(ext)", "abs(size - 100)"}
DATES = {"modified"}


def key_kind(expr):
    if expr in NUMERIC:
        return "num"
    if expr in DATES:
        return "date"
    return "str"


def order_tree(rng, root, n_files=None, extra=0):
    sizes = [5, 50, 500, 9, 90, 900, 1000, 1001, 10, 100, 7, 70, 0, 0, 5, 50]
    names = ["a", "b", "a.txt", "b.txt", "B.txt", "Z", "aa", "a10", "a9", "a.rs", "c.rs", "ä", "_x", "10", "9", "x.TXT"]
    dirs = ["", "d1", "d2", "d1/e", "d10"]
    nodes = [{"path": d, "kind": "dir"} for d in dirs if d]
    # a directory with >= 10 sub-directories: multi-digit hard-link count
    nodes.append({"path": "many", "kind": "dir"})
    for i in range(rng.choice([9, 10, 11, 12])):
        nodes.append({"path": "many/s%d" % i, "kind": "dir"})
    base = 1_650_000_000
    n = n_files or rng.randint(8, 40)
    used = set()
    for _ in range(n):
        d = rng.choice(dirs)
        nm = rng.choice(names)
        p = nm if not d else d + "/" + nm
        if p in used:
            continue
        used.add(p)
        nodes.append({"path": p, "kind": "file", "size": rng.choice(sizes),
                      "mtime": base + rng.choice([0, 1, 2, 3, 60, 61, 3600, 86400, 86401, 10 * 86400, 40 * 86400, 300 * 86400, -200 * 86400, 800 * 86400]),
                      "owner": (rng.choice([0, 1, 2, 10, 100]), rng.choice([0, 5, 50])),
                      "mode": rng.choice([0o644, 0o600, 0o755])})
    for i in range(extra):
        d = rng.choice(dirs)
        p = "x%05d.%s" % (i, rng.choice(["txt", "rs", "TXT", "c"]))
        nodes.append({"path": p if not d else d + "/" + p, "kind": "file", "size": rng.choice(sizes + [i % 97, i]),
                      "mtime": base + (i * 7) % 100000, "owner": (rng.choice([0, 1, 2, 10, 100]), rng.choice([0, 5, 50])),
                      "mode": rng.choice([0o644, 0o600, 0o755])})
    tree.materialise(root, nodes)
    # times far from today: before 1970, after 2038, after 2262 (where a nanosecond count no longer fits 64 bits)
    if rng.random() < 0.3:
        for k, ts in enumerate(rng.sample([-2000000000, -86400, -1, 2147483648, 4102444800, 9500000000, 10413792000, 13000000000], 3)):
            p = os.path.join(root, "era%d.dat" % k)
            with open(p, "w") as f:
                f.write("e" * k)
            os.utime(p, (ts, ts))
            nodes.append({"path": "era%d.dat" % k, "kind": "file", "size": k, "mtime": ts})
    # sparse files whose sizes differ by less than a double can tell (the scratch area is a tmpfs: no blocks are allocated)
    if rng.random() < 0.3:
        for k, sz in enumerate(rng.sample([2 ** 53, 2 ** 53 + 1, 2 ** 53 + 2, 2 ** 53 - 1, 2 ** 60 + 1, 2 ** 60, 2 ** 32, 2 ** 32 - 1], 3)):
            try:
                with open(os.path.join(root, "huge%d.bin" % k), "wb") as f:
                    f.truncate(sz)
                nodes.append({"path": "huge%d.bin" % k, "kind": "file", "size": sz})
            except OSError:
                pass
    return nodes


def parse_key(kind, text):
    if kind == "num":
        if text == "":
            return 0
        # whole numbers exactly (sizes beyond 2^53 must not collapse into one float)
        return int(text) if text.lstrip("-").isdigit() else float(text)
    if kind == "date":
        return datetime.datetime.strptime(text, "%Y-%m-%d %H:%M:%S")
    return text.encode("utf-8", "surrogateescape")


def cmp_rows(keys_a, keys_b, kinds, asc):
    """-1/0/1 under the key list; keys_* are lists of printed key values."""
    for ka, kb, kind, up in zip(keys_a, keys_b, kinds, asc):
        a, b = parse_key(kind, ka), parse_key(kind, kb)
        if a == b:
            continue
        c = -1 if a < b else 1
        return c if up else -c
    return 0


def sorted_keys(rows_keys, kinds, asc):
    return sorted(rows_keys, key=functools.cmp_to_key(lambda x, y: cmp_rows(x, y, kinds, asc)))


def gen_keys(rng, select_cols, max_keys=3):
    """Returns (order-by text, [key expr], [asc]) ; may use positional keys referring to select_cols."""
    n = rng.randint(1, max_keys)
    exprs = rng.sample(KEY_EXPRS, n)
    if n >= 2 and rng.random() < 0.2:
        # the same key twice (typically once by position, once spelled out): the repeat must not disturb the others
        exprs[rng.randrange(1, n)] = exprs[0]
    parts, asc = [], []
    for i, e in enumerate(exprs):
        text = e
        if e in select_cols and rng.random() < 0.4:
            text = str(select_cols.index(e) + 1)
        d = rng.choice(["", "", " asc", " desc", " DESC", " ASC"])
        parts.append(text + d)
        asc.append("desc" not in d.lower())
    return ", ".join(parts), exprs, asc


def learn_keys(runner_run, exprs, frm, where):
    """Runs `path, <k>` once per key expression (independent of C15's per-row value cache) and returns
    {path: [value per key]} or (None, failing result)."""
    table = {}
    first = True
    for e in exprs:
        q = "path, %s from %s%s into list" % (e, frm, (" where " + where) if where else "")
        r = runner_run(q)
        if r.verdict != "ok" or r.rc != 0 or r.err:
            return None, (q, r)
        try:
            rows = r.rows(2)
        except ValueError:
            return None, (q, r)
        if first:
            for p, v in rows:
                table.setdefault(p, []).append([v])
            first = False
            for p in table:
                if len(table[p]) != 1:
                    return None, (q, r)     # duplicate path rows: cannot identify rows
            table = {p: v[0] for p, v in table.items()}
        else:
            seen = set()
            for p, v in rows:
                if p not in table or p in seen:
                    return None, (q, r)
                seen.add(p)
                table[p].append(v)
            if len(seen) != len(table):
                return None, (q, r)
    return table, None
