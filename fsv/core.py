"""Check driver: parallel job execution, three-valued verdicts, known findings,
replay files and evidence files."""
import hashlib
import importlib
import json
import multiprocessing
import os
import random
import sys
import time
import traceback

from . import build, runner

VERIF = build.VERIF
# FSV_REPO / FSV_CACHE / FSV_OUT redirect the source tree, the build cache and the evidence + replay files; they are used
# only to try the checks on scratch copies (seeded changes) without touching /repo or the committed evidence
EVIDENCE_DIR = os.path.join(os.environ["FSV_OUT"], "evidence") if os.environ.get("FSV_OUT") else os.path.join(VERIF, "evidence")
REPLAY_DIR = os.path.join(os.environ["FSV_OUT"], "replays") if os.environ.get("FSV_OUT") else os.path.join(VERIF, "replays")
KNOWN_FILE = os.path.join(VERIF, "known_findings.json")
NPROC = int(os.environ.get("FSV_JOBS", "16"))


def job_seed(base, prop, idx):
    h = hashlib.sha256(("%s/%s/%s" % (base, prop, idx)).encode()).digest()
    return int.from_bytes(h[:8], "big")


class JobResult(dict):
    """What a job returns (plain dict so that it pickles cheaply):
      evaluations: int           fselect executions judged
      nontrivial: [str]          keys of distinct non-trivial cases
      violations: [ {what, detail, sig?} ]   sig = quirk/site signature candidate
      inconclusive: [str]
      cover: {name: [items]}     coverage sets
      counts: {name: int}        coverage counters
      samples: [obj]
    """

    def __init__(self):
        super().__init__(evaluations=0, nontrivial=[], violations=[], inconclusive=[],
                         cover={}, counts={}, samples=[], latent=[])

    def ev(self, n=1):
        self["evaluations"] += n

    def nt(self, key):
        self["nontrivial"].append(key)

    def viol(self, what, detail, sig=None):
        self["violations"].append({"what": what, "detail": detail, "sig": sig})

    def inc(self, why):
        self["inconclusive"].append(why)

    def cover(self, name, item):
        self["cover"].setdefault(name, []).append(item)

    def count(self, name, n=1):
        self["counts"][name] = self["counts"].get(name, 0) + n

    def sample(self, obj, cap=3):
        if len(self["samples"]) < cap:
            self["samples"].append(obj)


def _worker_init(binary, owner_pid):
    runner.set_binary(binary)
    runner.set_owner(owner_pid)


SAN_FLAVOURS = {
    # flavour -> (build flavour, wrapper, env, cpu limit)
    "arith": ("arith", None, None, None),
    "asan": ("asan", None, {"ASAN_OPTIONS": "halt_on_error=1:abort_on_error=1:detect_leaks=0:allocator_may_return_null=1"}, 60),
    "valgrind": ("mon", ["valgrind", "--quiet", "--error-exitcode=97", "--leak-check=no", "--track-origins=no"], None, 300),
}
SAN_MARKERS = (b"AddressSanitizer", b"Invalid read", b"Invalid write", b"uninitialised value", b"Invalid free", b"Mismatched free",
               b"definitely lost", b"Process terminating", b"LeakSanitizer")
_san_bins = {}


def _is_sanitizer_report(v):
    d = v.get("detail") or {}
    texts = []
    for k in ("result", "canonical_result"):
        r = d.get(k)
        if isinstance(r, dict):
            texts.append(str(r.get("stderr", "")))
            if r.get("rc") == 97:
                return True
    blob = " ".join(texts) + " " + v.get("what", "")
    return any(m.decode() in blob for m in SAN_MARKERS)


def _run_one(arg):
    modname, job = arg
    mod = importlib.import_module(modname)
    t0 = time.time()
    flavour = job.get("flavour")
    saved_bin = runner.binary()
    if flavour:
        bf, wrapper, env, cpu = SAN_FLAVOURS[flavour]
        if bf not in _san_bins:
            _san_bins[bf] = build.build(bf)
        runner.set_binary(_san_bins[bf])
        runner.set_flavour(wrapper, env, cpu)
    try:
        res = _run_job_flavoured(mod, job, flavour)
    finally:
        if flavour:
            runner.set_binary(saved_bin)
            runner.set_flavour()
    res["job"] = job
    res["t"] = time.time() - t0
    return dict(res)


def _run_job_flavoured(mod, job, flavour):
    try:
        res = mod.run_job(job)
        if flavour == "arith":
            # a panic seen only under overflow checks / debug assertions is recorded, it is not a verdict
            res["latent"] = res.get("latent", []) + [{"what": v["what"][:300], "job": job.get("id")} for v in res["violations"]]
            res["violations"] = []
            res["counts"]["arith_build_executions"] = res["counts"].get("arith_build_executions", 0) + res["evaluations"]
        elif flavour in ("asan", "valgrind"):
            keep = [v for v in res["violations"] if _is_sanitizer_report(v)]
            dropped = len(res["violations"]) - len(keep)
            for v in keep:
                v["what"] = "[%s report] %s" % (flavour, v["what"])
            res["violations"] = keep
            res["counts"]["%s_executions" % flavour] = res["counts"].get("%s_executions" % flavour, 0) + res["evaluations"]
            if dropped:
                res["counts"]["%s_non_sanitizer_alarms_ignored" % flavour] = dropped
            res["inconclusive"] = []
        return res
    except Exception:  # harness error: inconclusive, never a violation
        res = JobResult()
        res.inc("harness exception in job %s: %s" % (job.get("id"), traceback.format_exc()[-1500:]))
        res["harness_error"] = True
        return res


def load_known():
    try:
        with open(KNOWN_FILE) as f:
            return json.load(f)
    except FileNotFoundError:
        return {"findings": []}


class Check:
    """One run of one property's check."""

    def __init__(self, prop, modname, tier, seed, level="exploration"):
        self.prop = prop
        self.modname = modname
        self.tier = tier
        self.seed = seed
        self.level = level
        self.t0 = time.time()
        self.evaluations = 0
        self.nontrivial = set()
        self.violations = []        # unknown ones
        self.known_hits = {}        # finding id -> count
        self.known_examples = {}
        self.inconclusive = []
        self.cover = {}
        self.counts = {}
        self.samples = []
        self.latent = []
        self.harness_errors = 0
        self.jobs_run = 0
        try:
            for fn in os.listdir(REPLAY_DIR):
                if fn.startswith(prop + "-") and fn.endswith(".json"):
                    os.unlink(os.path.join(REPLAY_DIR, fn))       # replay files of earlier runs of this property
        except OSError:
            pass
        known = load_known()
        self.known = [k for k in known.get("findings", [])
                      if k.get("property") == prop and k.get("status") == "known"]
        self.known_sigs = {k["signature"]: k for k in self.known}

    def run_jobs(self, jobs, budget_s=None):
        """Runs jobs on the worker pool; honours a wall budget (truncates exploration)."""
        if not jobs:
            return
        binary = runner.binary()
        args = [(self.modname, j) for j in jobs]
        truncated = 0
        if NPROC <= 1 or len(jobs) == 1:
            _worker_init(binary, runner.owner())
            for a in args:
                if budget_s and time.time() - self.t0 > budget_s:
                    truncated += 1
                    continue
                self.merge(_run_one(a))
        else:
            ctx = multiprocessing.get_context("fork")
            with ctx.Pool(NPROC, initializer=_worker_init,
                          initargs=(binary, runner.owner())) as pool:
                it = pool.imap_unordered(_run_one, args, chunksize=1)
                for res in it:
                    self.merge(res)
                    if budget_s and time.time() - self.t0 > budget_s:
                        pool.terminate()
                        truncated = len(jobs) - self.jobs_run
                        break
        if truncated:
            self.counts["jobs_truncated_by_budget"] = self.counts.get("jobs_truncated_by_budget", 0) + truncated

    def shard(self, jobs, flavour, limit):
        """Copies up to `limit` jobs as sanitizer-shard jobs of the given flavour (thorough tier)."""
        out = []
        for j in jobs[:limit]:
            k = dict(j)
            k["flavour"] = flavour
            k["id"] = "%s@%s" % (j.get("id"), flavour)
            out.append(k)
        # build once in the parent so that workers do not race on cargo
        bf = SAN_FLAVOURS[flavour][0]
        if out and bf not in _san_bins:
            _san_bins[bf] = build.build(bf)
        return out

    def merge(self, res):
        self.jobs_run += 1
        self.evaluations += res["evaluations"]
        self.nontrivial.update(res["nontrivial"])
        for k, items in res["cover"].items():
            s = self.cover.setdefault(k, set())
            for it in items:
                s.add(it if not isinstance(it, list) else tuple(it))
        for k, n in res["counts"].items():
            self.counts[k] = self.counts.get(k, 0) + n
        for s in res["samples"]:
            if len(self.samples) < 6:
                self.samples.append(s)
        self.inconclusive.extend(res["inconclusive"])
        self.latent.extend(res.get("latent", []))
        if res.get("harness_error"):
            self.harness_errors += 1
        for v in res["violations"]:
            sig = v.get("sig")
            parts = sig.split("+") if sig else []       # several defect models at once: known only if every one is listed
            if parts and all(p in self.known_sigs for p in parts):
                for p in parts:
                    fid = self.known_sigs[p]["id"]
                    self.known_hits[fid] = self.known_hits.get(fid, 0) + 1
                    self.known_examples.setdefault(fid, v["what"])
            else:
                v = dict(v)
                v["job"] = res["job"]
                self.violations.append(v)

    # -- reporting -------------------------------------------------------------------------

    def finish(self, rule, assumptions, extra_cover=None, require=None, exhaustive=None):
        """Writes the evidence file, prints KNOWN-FINDING / VIOLATION lines, returns the exit code.
        require: {cover-set-name: minimum distinct items} - a miss makes the run inconclusive."""
        wall = time.time() - self.t0
        os.makedirs(EVIDENCE_DIR, exist_ok=True)
        missing = []
        for name, need in (require or {}).items():
            have = len(self.cover.get(name, ())) if name in self.cover else self.counts.get(name, 0)
            if have < need:
                missing.append("%s: %d < %d" % (name, have, need))
        cov = {
            "evaluations": self.evaluations,
            "distinct_nontrivial": len(self.nontrivial),
            "rule": rule,
            "samples": self.samples[:6] or ["(no sample recorded)"],
            "jobs": self.jobs_run,
            "inconclusive_cases": len(self.inconclusive),
            "inconclusive_reasons": sorted(set(x[:160] for x in self.inconclusive))[:8],
            "harness_errors": self.harness_errors,
            "known_finding_hits": self.known_hits,
            "counts": self.counts,
            "coverage_sets": {k: (sorted(map(str, v))[:60] if len(v) <= 60 else
                                  {"distinct": len(v), "first": sorted(map(str, v))[:20]})
                              for k, v in self.cover.items()},
            "coverage_set_sizes": {k: len(v) for k, v in self.cover.items()},
            "required_coverage_missing": missing,
        }
        if self.latent:
            cov["latent_arith"] = self.latent[:10]
        if exhaustive is not None:
            cov["exhaustive_subspaces"] = exhaustive
        if extra_cover:
            cov.update(extra_cover)
        ev = {
            "property_id": self.prop,
            "tier": self.tier,
            "seed": self.seed,
            "level": self.level,
            "coverage": cov,
            "assumptions": assumptions,
            "wall_s": round(wall, 2),
            "violations": len(self.violations),
        }
        # verdict
        rc = 0
        for fid, n in sorted(self.known_hits.items()):
            k = next(x for x in self.known if x["id"] == fid)
            print("KNOWN-FINDING: property=%s %s [%s; %d observations, e.g. %s]" % (
                self.prop, k["what"], fid, n, self.known_examples.get(fid, "")[:200]))
        if self.violations:
            os.makedirs(REPLAY_DIR, exist_ok=True)
            seen = set()
            n = 0
            for v in self.violations:
                key = v["what"][:80]
                if key in seen and n >= 5:
                    continue
                seen.add(key)
                n += 1
                if n > 25:
                    break
                path = os.path.join(REPLAY_DIR, "%s-%d.json" % (self.prop, n))
                with open(path, "w") as f:
                    json.dump({"property": self.prop, "what": v["what"], "detail": v["detail"],
                               "job": v["job"], "tier": self.tier, "seed": self.seed}, f, indent=1,
                              default=repr)
                print("VIOLATION property=%s replay=%s" % (self.prop, path))
                print("  " + v["what"][:400])
            rc = 1
            ev["verdict"] = "violated"
        elif self.evaluations == 0 or len(self.nontrivial) < 2 or missing or \
                (self.harness_errors and self.harness_errors * 5 > self.jobs_run):
            rc = 2
            ev["verdict"] = "inconclusive"
            print("INCONCLUSIVE property=%s evaluations=%d nontrivial=%d missing=%s harness_errors=%d" % (
                self.prop, self.evaluations, len(self.nontrivial), missing, self.harness_errors))
            for x in sorted(set(self.inconclusive))[:5]:
                print("  " + x[:600])
        else:
            ev["verdict"] = "held-on-observed"
        with open(os.path.join(EVIDENCE_DIR, self.prop + ".json"), "w") as f:
            json.dump(ev, f, indent=1, default=repr)
        print("%s %s tier=%s seed=%d: %s; %d executions judged, %d distinct non-trivial, "
              "%d inconclusive cases, %d known-finding observations, %.1fs" % (
                  self.prop, self.modname.split(".")[-1], self.tier, self.seed, ev["verdict"],
                  self.evaluations, len(self.nontrivial), len(self.inconclusive),
                  sum(self.known_hits.values()), wall))
        return rc


def main(argv):
    import argparse
    ap = argparse.ArgumentParser()
    ap.add_argument("prop")
    ap.add_argument("--tier", default=os.environ.get("VERIF_TIER", "quick"), choices=["quick", "thorough"])
    ap.add_argument("--replay")
    ap.add_argument("--seed", type=int, default=None)
    a = ap.parse_args(argv)
    prop = a.prop.upper()
    seed = a.seed if a.seed is not None else int(os.environ.get("VERIF_SEED", "0") or 0)
    modname = "fsv.checks." + prop.lower()
    sys.path.insert(0, VERIF)
    try:
        mod = importlib.import_module(modname)
    except ImportError as e:
        print("no check for %s: %s" % (prop, e))
        return 2
    try:
        # FSV_COVERAGE=<dir> (tools/coverage.sh only): run the workload on the coverage-instrumented build to see which
        # source lines it reaches; such a run decides nothing and the registered commands never set the variable
        binary = build.build("cov" if os.environ.get("FSV_COVERAGE") else "mon")
    except RuntimeError as e:
        print("INCONCLUSIVE property=%s build failed: %s" % (prop, e))
        return 2
    runner.set_binary(binary)
    runner.set_owner(os.getpid())
    try:
        if a.replay:
            with open(a.replay) as f:
                rep = json.load(f)
            _worker_init(binary, os.getpid())
            res = _run_one((modname, rep["job"]))
            print(json.dumps({k: res[k] for k in ("evaluations", "violations", "inconclusive")},
                             indent=1, default=repr)[:20000])
            if res["violations"]:
                print("VIOLATION property=%s replay=%s" % (prop, a.replay))
                return 1
            return 0
        chk = Check(prop, modname, a.tier, seed, getattr(mod, "LEVEL", "exploration"))
        return mod.main(chk)
    finally:
        runner.cleanup_all()


if __name__ == "__main__":
    sys.exit(main(sys.argv[1:]))
