"""Builds the monitored fselect binaries from /repo's current working tree."""
import os
import subprocess
import sys
import time

REPO = os.environ.get("FSV_REPO", "/repo")
VERIF = os.path.dirname(os.path.dirname(os.path.abspath(__file__)))
CACHE = os.environ.get("FSV_CACHE") or os.path.join(VERIF, ".cache")

FLAVOURS = {
    # deciding binary: release semantics, hooks compiled in, LTO off only to keep rebuilds short
    "mon": {
        "target": "target-mon",
        "env": {"CARGO_PROFILE_RELEASE_LTO": "false"},
        "cmd": ["cargo", "build", "--release", "--features", "verif", "--offline"],
        "bin": "release/fselect",
    },
    # arithmetic-overflow / debug-assert "sanitizer" build
    "arith": {
        "target": "target-arith",
        "env": {
            "CARGO_PROFILE_RELEASE_LTO": "false",
            "CARGO_PROFILE_RELEASE_OVERFLOW_CHECKS": "true",
            "CARGO_PROFILE_RELEASE_DEBUG_ASSERTIONS": "true",
        },
        "cmd": ["cargo", "build", "--release", "--features", "verif", "--offline"],
        "bin": "release/fselect",
    },
    # AddressSanitizer build (nightly)
    "asan": {
        "target": "target-asan",
        "env": {
            "CARGO_PROFILE_RELEASE_LTO": "false",
            "RUSTFLAGS": "-Zsanitizer=address -Cforce-frame-pointers=yes",
        },
        "cmd": ["cargo", "+nightly", "build", "--release", "--features", "verif", "--offline",
                "--target", "x86_64-unknown-linux-gnu"],
        "bin": "x86_64-unknown-linux-gnu/release/fselect",
    },
    # development aid (tools/coverage.sh): which source lines do the workloads reach? Never a deciding binary.
    "cov": {
        "target": "target-cov",
        "env": {"CARGO_PROFILE_RELEASE_LTO": "false", "RUSTFLAGS": "-Cinstrument-coverage"},
        "cmd": ["cargo", "+nightly", "build", "--release", "--features", "verif", "--offline"],
        "bin": "release/fselect",
    },
}


def build(flavour="mon", quiet=True):
    """Runs cargo (a no-op when nothing changed) and returns the binary path.

    Raises RuntimeError if the build fails - the caller reports 'inconclusive' (exit 2)."""
    f = FLAVOURS[flavour]
    target = os.path.join(CACHE, f["target"])
    os.makedirs(target, exist_ok=True)
    env = dict(os.environ)
    env.update(f["env"])
    env["CARGO_TARGET_DIR"] = target
    env["CARGO_NET_OFFLINE"] = "true"
    t0 = time.time()
    p = subprocess.run(f["cmd"], cwd=REPO, env=env, stdout=subprocess.PIPE,
                       stderr=subprocess.STDOUT, text=True)
    if p.returncode != 0:
        sys.stderr.write(p.stdout[-4000:])
        raise RuntimeError("cargo build (%s) failed with status %d" % (flavour, p.returncode))
    binary = os.path.join(target, f["bin"])
    if not os.path.isfile(binary):
        raise RuntimeError("binary missing after build: " + binary)
    # fselect prefers a config.toml next to its executable: there must be none
    cfg = os.path.join(os.path.dirname(binary), "config.toml")
    if os.path.exists(cfg):
        raise RuntimeError("unexpected config.toml next to the binary: " + cfg)
    if not quiet:
        sys.stderr.write("[build] %s ready in %.1fs\n" % (flavour, time.time() - t0))
    return binary


def fakeclock():
    """Compiles the LD_PRELOAD controlled-clock shim (fsv/native/fakeclock.c) and returns its path."""
    src = os.path.join(VERIF, "fsv", "native", "fakeclock.c")
    out = os.path.join(CACHE, "fakeclock.so")
    os.makedirs(CACHE, exist_ok=True)
    if not os.path.exists(out) or os.path.getmtime(out) < os.path.getmtime(src):
        tmp = out + ".%d.tmp" % os.getpid()
        p = subprocess.run(["gcc", "-shared", "-fPIC", "-O2", "-o", tmp, src, "-ldl"], stdout=subprocess.PIPE,
                           stderr=subprocess.STDOUT, text=True)
        if p.returncode != 0:
            raise RuntimeError("cannot build the fake-clock shim: " + p.stdout[-500:])
        os.replace(tmp, out)
    return out


if __name__ == "__main__":
    print(fakeclock())
    for fl in (sys.argv[1:] or ["mon"]):
        print(build(fl, quiet=False))
