"""Runs the fselect binary at the process boundary (observation point O1) and collects
stdout, stderr, exit status, CPU time, hook events (O3) and optional strace output (O4/O5)."""
import json
import os
import resource
import shutil
import signal
import subprocess
import time

SCRATCH_BASE = os.environ.get("FSV_SCRATCH") or ("/dev/shm" if os.path.isdir("/dev/shm") else "/tmp")
CPU_LIMIT_S = 5
WALL_LIMIT_S = 30
PAD = "pad/pad/pad/pad/pad/pad"

_counter = [0]
_owner = [None]
_bin = [None]
_flavour = {"wrapper": None, "env": None, "cpu": None}


def set_flavour(wrapper=None, env=None, cpu=None):
    """Sanitizer shards: run every child through `wrapper` (e.g. valgrind), with extra environment and CPU limit."""
    _flavour["wrapper"] = wrapper
    _flavour["env"] = env
    _flavour["cpu"] = cpu


def set_binary(path):
    _bin[0] = path


def binary():
    return _bin[0]


def set_owner(pid):
    """All scratch directories of a check run carry the main process id so that the
    main process can remove whatever a worker left behind."""
    _owner[0] = pid


def owner():
    return _owner[0] or os.getpid()


def new_scratch(tag="t"):
    _counter[0] += 1
    d = os.path.join(SCRATCH_BASE, "fsv.%d.%d.%s%d" % (owner(), os.getpid(), tag, _counter[0]))
    os.makedirs(os.path.join(d, PAD, "w"))
    return d


def work_dir(scratch):
    return os.path.join(scratch, PAD, "w")


def rm_scratch(d):
    if not d:
        return
    # directories may have been chmod 000 by a fault-injection case
    for root, dirs, _files in os.walk(d):
        for x in dirs:
            p = os.path.join(root, x)
            try:
                if not os.path.islink(p):
                    os.chmod(p, 0o700)
            except OSError:
                pass
    shutil.rmtree(d, ignore_errors=True)


def cleanup_all():
    pref = "fsv.%d." % owner()
    try:
        names = os.listdir(SCRATCH_BASE)
    except OSError:
        return
    for n in names:
        if n.startswith(pref):
            rm_scratch(os.path.join(SCRATCH_BASE, n))


def make_home(scratch, config=None, name="home"):
    """A private $HOME. config=None: no file (fselect writes its defaults on first run);
    otherwise the text of config.toml."""
    home = os.path.join(scratch, name)
    cfgdir = os.path.join(home, ".config", "fselect")
    os.makedirs(cfgdir, exist_ok=True)
    if config is not None:
        with open(os.path.join(cfgdir, "config.toml"), "w") as f:
            f.write(config)
    return home


class Result:
    __slots__ = ("rc", "sig", "out", "err", "cpu", "wall", "events", "verdict", "strace", "argv")

    def __init__(self):
        self.rc = None
        self.sig = None
        self.out = b""
        self.err = b""
        self.cpu = 0.0
        self.wall = 0.0
        self.events = []
        self.verdict = "ok"      # ok | busy | blocked | watchdog
        self.strace = None
        self.argv = None

    @property
    def panicked(self):
        return b"panicked at" in self.err

    def brief(self):
        return {"rc": self.rc, "sig": self.sig, "verdict": self.verdict,
                "stdout": self.out[:2000].decode("utf-8", "replace"),
                "stderr": self.err[:2000].decode("utf-8", "replace")}

    def rows(self, ncols=1):
        return decode_list(self.out, ncols)


def decode_list(out, ncols=1):
    """Decodes `into list` output: every cell is followed by NUL."""
    if not out:
        return []
    parts = out.split(b"\0")
    if parts and parts[-1] == b"":
        parts.pop()
    cells = [p.decode("utf-8", "surrogateescape") for p in parts]
    if ncols == 1:
        return cells
    if len(cells) % ncols != 0:
        raise ValueError("list output has %d cells, not a multiple of %d" % (len(cells), ncols))
    return [tuple(cells[i:i + ncols]) for i in range(0, len(cells), ncols)]


def _limits():
    cpu = _flavour["cpu"] or CPU_LIMIT_S
    resource.setrlimit(resource.RLIMIT_CPU, (cpu, cpu + 1))
    resource.setrlimit(resource.RLIMIT_CORE, (0, 0))
    if not _flavour["wrapper"] and not (_flavour["env"] or {}).get("ASAN_OPTIONS"):
        resource.setrlimit(resource.RLIMIT_AS, (8 << 30, 8 << 30))     # sanitizers reserve terabytes of address space


def _proc_state(pid):
    info = {}
    for k in ("syscall", "wchan", "stat"):
        try:
            with open("/proc/%d/%s" % (pid, k)) as f:
                info[k] = f.read().strip()
        except OSError:
            info[k] = ""
    return info


def run(args, cwd, home, tz="UTC", trace=False, wall=WALL_LIMIT_S, env_extra=None,
        stdout=None, strace=None, uid=None, binary_path=None, wrapper=None, fake_epoch=None, stdin_data=None):
    """args: the argument vector after the program name.
    strace: None or list of extra strace options (output is collected in Result.strace).
    uid: run as this uid/gid through setpriv.
    stdout: None (pipe, collected) or a file object / fd."""
    exe = binary_path or _bin[0]
    assert exe, "binary not set"
    env = {"HOME": home, "TZ": tz, "PATH": "/usr/bin:/bin", "LANG": "C.UTF-8", "NO_COLOR": "1"}
    tracefile = None
    if trace:
        _counter[0] += 1
        tracefile = os.path.join(home, "trace.%d.%d.jsonl" % (os.getpid(), _counter[0]))
        env["FSELECT_VERIF_TRACE"] = tracefile
    if fake_epoch is not None:
        from . import build
        env["LD_PRELOAD"] = build.fakeclock()
        env["FSV_FAKE_EPOCH"] = str(int(fake_epoch))
    if _flavour["env"]:
        env.update(_flavour["env"])
    if os.environ.get("FSV_COVERAGE"):
        env["LLVM_PROFILE_FILE"] = os.path.join(os.environ["FSV_COVERAGE"], "fs-%16m.profraw")
    if env_extra:
        env.update(env_extra)
    if wrapper is None and _flavour["wrapper"]:
        wrapper = _flavour["wrapper"]
    if _flavour["cpu"] and wall == WALL_LIMIT_S:
        wall = max(wall, 4 * _flavour["cpu"])
    argv = [exe] + list(args)
    straceout = None
    if uid is not None:
        argv = ["setpriv", "--reuid", str(uid), "--regid", str(uid), "--clear-groups"] + argv
    if strace is not None:
        _counter[0] += 1
        straceout = os.path.join(home, "strace.%d.%d.txt" % (os.getpid(), _counter[0]))
        argv = ["strace", "-f", "-o", straceout] + list(strace) + argv
    if wrapper:
        argv = list(wrapper) + argv
    r = Result()
    r.argv = list(args)
    t0 = time.time()
    try:
        p = subprocess.Popen(argv, cwd=cwd, env=env, stdin=subprocess.DEVNULL if stdin_data is None else subprocess.PIPE,
                             stdout=subprocess.PIPE if stdout is None else stdout,
                             stderr=subprocess.PIPE, preexec_fn=_limits)
    except OSError as e:
        r.verdict = "harness-error"
        r.err = str(e).encode()
        return r
    try:
        out, err = p.communicate(stdin_data, timeout=wall)
    except subprocess.TimeoutExpired:
        st = _proc_state(p.pid)
        # classify: blocked forever in open() of a FIFO, or something else
        sysc = st.get("syscall", "")
        verdict = "watchdog"
        # x86-64: 257 = openat, 2 = open
        if sysc.split(" ")[:1] in (["257"], ["2"]):
            verdict = "blocked"
        p.kill()
        out, err = p.communicate()
        r.verdict = verdict
        r.err = (err or b"") + (" [proc %s]" % json.dumps(st)).encode()
    r.wall = time.time() - t0
    r.out = out or b""
    r.err = (r.err or err or b"") if r.verdict != "ok" else (err or b"")
    rc = p.returncode
    if rc is not None and rc < 0:
        r.sig = -rc
        r.rc = None
        if r.verdict == "ok" and r.sig in (signal.SIGXCPU, signal.SIGKILL):
            r.verdict = "busy"
    else:
        r.rc = rc
    if tracefile:
        try:
            with open(tracefile, "rb") as f:
                for line in f:
                    line = line.strip()
                    if line:
                        try:
                            r.events.append(json.loads(line))
                        except ValueError:
                            pass
            os.unlink(tracefile)
        except OSError:
            pass
    if straceout:
        try:
            with open(straceout, "r", errors="replace") as f:
                r.strace = f.read()
            os.unlink(straceout)
        except OSError:
            r.strace = ""
    return r


def run_session(queries, cwd, home, **kw):
    """Interactive mode (`fselect -i`, documented in the README) fed through a pipe: the queries run one after the other in ONE
    process; stdout is the plain concatenation of their outputs. Each query is one line, so it must not contain a newline."""
    assert all("\n" not in q for q in queries)
    return run(["-i"], cwd=cwd, home=home, stdin_data=("\n".join(queries) + "\nquit\n").encode("utf-8", "surrogateescape"), **kw)


def session_matches(res, queries, cwd, home, what, **kw):
    """History oracle shared by several checks: a query's output does not depend on the queries that ran before it in the same
    process. Returns True (held), False (violation recorded) or None (inconclusive: some run did not complete)."""
    queries = [q for q in queries if "\n" not in q and "\r" not in q]       # a session takes one query per line
    if len(queries) < 2:
        return None
    singles = []
    for q in queries:
        r = run([q], cwd=cwd, home=home, **kw)
        res.ev()
        if r.verdict != "ok" or r.rc != 0 or r.err:
            return None
        singles.append(r.out)
    rs = run_session(queries, cwd, home, **kw)
    res.ev()
    if rs.verdict != "ok":
        if rs.verdict in ("busy", "blocked"):
            res.viol("%s: interactive session %s on %s" % (what, rs.verdict, queries), {"queries": queries, "result": rs.brief()})
            return False
        return None
    if rs.panicked or rs.out != b"".join(singles) or rs.err.strip() not in (b"", b"CTRL-D"):
        k = 0
        acc = b""
        for k, o in enumerate(singles):
            if not rs.out.startswith(acc + o):
                break
            acc += o
        res.viol("%s: in one interactive session the output of query %d (`%s`) differs from its output when run alone (status %s, stderr %r)" % (
            what, k + 1, queries[k][:160], rs.rc, rs.err[:120]), {"queries": queries, "session": rs.brief(), "alone": [o[:300].decode("utf-8", "replace") for o in singles]})
        return False
    res.count("sessions_checked")
    return True
