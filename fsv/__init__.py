"""fsv - runtime monitors for fselect (see /verif/DESIGN.md)."""
