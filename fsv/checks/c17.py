"""C17 - one failing directory, file or reader never spoils the rest of the search (fault enumeration)."""
import collections
import fcntl
import os
import random
import re
import subprocess

from .. import model, runner, tree
from ..core import JobResult, job_seed

LEVEL = "fault_enumeration"
NOBODY = 65534
FORMATS = ["tabs", "lines", "list", "csv", "json", "html"]


def small_tree(rng, root, n=None, content=True):
    nodes = tree.gen_tree(rng, max_entries=n or rng.randint(6, 16), max_depth=4, kinds=("file", "dir", "symlink"), odd=0.15, dir_bias=0.45,
                          content=(lambda r: b"".join(b"line\n" for _ in range(r.randint(0, 6))) + b"x" * r.randint(0, 9)) if content else None)
    for n_ in nodes:
        if n_["kind"] == "dir":
            n_["mode"] = 0o755
        elif n_["kind"] == "file":
            n_["mode"] = 0o644
    tree.materialise(root, nodes)
    return tree.snapshot(root)


def world_writable_home(sc):
    home = runner.make_home(sc, config="")
    for d, _s, _f in os.walk(home):
        os.chmod(d, 0o777)
    os.chmod(os.path.join(home, ".config/fselect/config.toml"), 0o666)
    return home


def inside(rel, d):
    return rel.startswith(d + "/")


def judge_basic(res, r, q, ctx):
    if r.verdict != "ok":
        if r.verdict in ("busy", "blocked"):
            res.viol("`%s` %s under a fault" % (q, r.verdict), ctx)
        else:
            res.inc("watchdog %s" % r.verdict)
        return False
    if r.panicked or r.sig or r.rc not in (0, 1):
        res.viol("`%s` crashes under a fault: status %s signal %s: %s" % (q, r.rc, r.sig, r.err[:200].decode("utf-8", "replace").strip()), ctx)
        return False
    return True


# ---- (a) real EACCES as an unprivileged user ----------------------------------------------------

def job_eacces(res, rng, sc, w, job):
    home = world_writable_home(sc)
    root = os.path.join(w, "t")
    os.mkdir(root)
    snap = small_tree(rng, root, n=rng.randint(8, 20))
    dirs = [e for e in snap if e.kind == "dir"]
    files = [e for e in snap if e.kind == "file"]
    if not dirs:
        return
    choices = [[d] for d in dirs]
    if len(dirs) >= 2:
        choices += [list(p) for p in rng.sample([(a, b) for a in dirs for b in dirs if a.rel < b.rel], min(6, len(dirs) * (len(dirs) - 1) // 2))]
    # fault-free reference as the same unprivileged user
    for mode in ("", " dfs"):
        q = "path from t%s into list" % mode
        r = runner.run([q], cwd=w, home=home, uid=NOBODY)
        res.ev()
        if r.verdict != "ok" or r.rc != 0 or r.err:
            res.viol("fault-free run as uid %d: status %s stderr %r" % (NOBODY, r.rc, r.err[:200]), {"query": q, "result": r.brief()})
            return
        if sorted(r.rows()) != sorted("t/" + e.rel for e in snap):
            res.viol("fault-free run as uid %d does not list the tree" % NOBODY, {"query": q})
            return
    # "a run in which nothing fails exits with status 0 and an empty standard error" - whatever root options are in force,
    # and whatever the links in the tree point to (a file, a device, nothing, a directory)
    extra_links = []
    for nm, tgt in (("zz-lfile", files[0].name if files else "nothing"), ("zz-lnull", "/dev/null"), ("zz-ldangling", "no-such-target"), ("zz-ldir", ".")):
        try:
            os.symlink(tgt if nm != "zz-lfile" or not files else os.path.relpath(files[0].abs, root), os.path.join(root, nm))
            extra_links.append(nm)
        except OSError:
            pass
    for opt in rng.sample(["symlinks", "symlinks dfs", "sym maxdepth 3", "archives", "arc dfs", "gitignore", "hgignore dockerignore", "mindepth 2",
                           "symlinks archives", "dfs maxdepth 1"], 4):
        q = "path, size from t %s into list" % opt
        r = runner.run([q], cwd=w, home=home, uid=NOBODY)
        res.ev()
        if r.verdict in ("busy", "blocked") or (r.verdict == "ok" and (r.rc != 0 or r.err or r.panicked)):
            res.viol("fault-free run with root option `%s`: %s, status %s, stderr %r" % (opt, r.verdict, r.rc, r.err[:200]), {"query": q, "result": r.brief()})
            return
        if r.verdict == "ok":
            res.cover("fault_free_options", opt)
    for nm in extra_links:
        os.unlink(os.path.join(root, nm))
    for blocked in choices:
        for d in blocked:
            os.chmod(d.abs, 0)
        try:
            brel = [d.rel for d in blocked]
            reach = [e for e in snap if not any(inside(e.rel, b) for b in brel)]
            # outermost blocked directories are the ones that are reached and fail
            failing = [b for b in brel if not any(inside(b, o) for o in brel)]
            qs = [("path from t into list", "streamed"), ("path from t dfs into list", "streamed-dfs"),
                  ("path, size from t order by path into list", "ordered"), ("count(*), sum(size) from t into list", "aggregate")]
            for q, kind in qs:
                r = runner.run([q], cwd=w, home=home, uid=NOBODY, trace=True)
                res.ev()
                ctx = {"query": q, "blocked": brel, "result": r.brief()}
                if not judge_basic(res, r, q, ctx):
                    continue
                if r.rc != 1:
                    res.viol("unlistable directory %s: status %s, expected 1" % (failing, r.rc), ctx)
                    continue
                err = r.err.decode("utf-8", "replace")
                miss = [b for b in failing if ("t/" + b) not in err]
                if miss:
                    res.viol("unlistable directory t/%s is not named on stderr (%r)" % (miss[0], err[:200]), ctx)
                    continue
                if kind.startswith("streamed"):
                    got = sorted(r.rows())
                    want = sorted("t/" + e.rel for e in reach)
                    if got != want:
                        ctx["missing"] = sorted(set(want) - set(got))[:5]
                        ctx["extra"] = sorted(set(got) - set(want))[:5]
                        res.viol("with %s unlistable the rows outside it changed: %d missing, %d extra" % (brel, len(set(want) - set(got)), len(set(got) - set(want))), ctx)
                        continue
                elif kind == "ordered":
                    rows = r.rows(2)
                    want = sorted(("t/" + e.rel, str(e.st.st_size)) for e in reach)
                    if rows != want:
                        res.viol("ordered query with %s unlistable: rows differ from the readable rest" % brel, ctx)
                        continue
                else:
                    cells = r.rows()
                    want = [str(len(reach)), str(sum(e.st.st_size for e in reach))]
                    if cells != want:
                        res.viol("aggregates with %s unlistable: %s, expected %s over the readable rest" % (brel, cells, want), ctx)
                        continue
                nerr = sum(1 for ev in r.events if ev["ev"] == "err")
                if nerr < len(failing):
                    res.viol("hook err: %d error events for %d failing directories" % (nerr, len(failing)), ctx)
                    continue
                res.count("hook_err_events", nerr)
                res.cover("eacces_paths", kind)
                res.nt("eacces|%s|%s" % (kind, ",".join(brel)))
            res.count("blocked_directory_sets", 1)
        finally:
            for d in blocked:
                os.chmod(d.abs, 0o755)
    # the unlistable directory is itself one of the search roots
    top = [d for d in dirs if "/" not in d.rel]
    if len(top) >= 2:
        bad, good = top[0], top[1]
        os.chmod(bad.abs, 0)
        try:
            qb, qg = model.quote_lit("t/" + bad.rel), model.quote_lit("t/" + good.rel)
            for q, with_good in (("path from %s, %s into list" % (qb, qg), True), ("path from %s, %s into list" % (qg, qb), True),
                                 ("path from %s dfs into list" % qb, False)):
                r = runner.run([q], cwd=w, home=home, uid=NOBODY)
                res.ev()
                ctx = {"query": q, "unlistable_root": bad.rel, "result": r.brief()}
                if not judge_basic(res, r, q, ctx):
                    continue
                want = sorted("t/" + e.rel for e in snap if inside(e.rel, good.rel)) if with_good else []
                if r.rc != 1 or ("t/" + bad.rel) not in r.err.decode("utf-8", "replace") or sorted(r.rows()) != want:
                    res.viol("unlistable search root t/%s: status %s, stderr %r, %d rows (expected status 1, the root named, %d rows of the other root)" % (
                        bad.rel, r.rc, r.err[:120], len(r.rows()), len(want)), ctx)
                    continue
                res.cover("eacces_paths", "unlistable-root")
        finally:
            os.chmod(bad.abs, 0o755)
    # unreadable files: only content-derived cells change
    if files:
        victims = rng.sample(files, min(3, len(files)))
        cols = ["path", "size", "mode", "sha1", "line_count", "is_shebang", "contains('line')"]
        q = "%s from t where is_file into list" % ", ".join(cols)
        base = runner.run([q], cwd=w, home=home, uid=NOBODY)
        res.ev()
        for v in victims:
            os.chmod(v.abs, 0)
        try:
            r = runner.run([q], cwd=w, home=home, uid=NOBODY)
            res.ev()
            ctx = {"query": q, "unreadable": [v.rel for v in victims], "result": r.brief()}
            if judge_basic(res, r, q, ctx) and base.rc == 0:
                b = {x[0]: x for x in base.rows(len(cols))}
                g = {x[0]: x for x in r.rows(len(cols))}
                ok = set(b) == set(g)
                for p, row in g.items():
                    if not ok:
                        break
                    if p in ["t/" + v.rel for v in victims]:
                        if row[1] != b[p][1] or row[3] != "" or row[4] != "" or row[2] != "----------" or row[6] != "" or row[5] not in ("", "false"):
                            res.viol("unreadable file %s: cells %s (content cells must be empty, size unchanged)" % (p, row), ctx)
                            ok = None
                            break
                    elif row != b[p]:
                        res.viol("unreadable files %s changed the row of %s" % ([v.rel for v in victims], p), ctx)
                        ok = None
                        break
                if ok is False:
                    res.viol("unreadable files changed the set of rows", ctx)
                elif ok:
                    res.cover("eacces_paths", "unreadable-file")
                    res.nt("unreadable|%s" % ",".join(v.rel for v in victims))
            # aggregate over the readable rest
            qa = "count(*), sum(line_count) from t where is_file into list"
            ra = runner.run([qa], cwd=w, home=home, uid=NOBODY)
            res.ev()
            if judge_basic(res, ra, qa, {"query": qa}):
                want_sum = 0
                for f in files:
                    if f not in victims:
                        with open(f.abs, "rb") as fh:
                            want_sum += fh.read().count(b"\n")
                if ra.rows() != [str(len(files)), str(want_sum)]:
                    res.viol("aggregates with unreadable files: %s, expected count %d and sum(line_count) %d over the readable data" % (
                        ra.rows(), len(files), want_sum), {"query": qa, "unreadable": [v.rel for v in victims]})
                else:
                    res.cover("eacces_paths", "aggregate-unreadable-file")
        finally:
            for v in victims:
                os.chmod(v.abs, 0o644)
    # a directory that can be listed but not searched (r--): its entries are named, their content cannot be opened. Other
    # names of the same files (hard links) in a readable place are other entries: their content cells stay what they are
    hl = os.path.join(w, "hl")
    os.makedirs(os.path.join(hl, "live"))
    os.makedirs(os.path.join(hl, "ro"))
    for k in range(rng.randint(2, 4)):
        fp = os.path.join(hl, "live", "data%d.bin" % k)
        with open(fp, "wb") as f:
            f.write(b"".join(rng.choice([b"line\n", b"#!/bin/sh\n", b"x" * 40, b"\n"]) for _ in range(rng.randint(1, 30))))
        os.link(fp, os.path.join(hl, "ro", "alias%d" % k))
    with open(os.path.join(hl, "live", "single.txt"), "wb") as f:
        f.write(b"one name only\n")
    # ... and a subdirectory, which cannot be entered: that is a failure to report like any other
    os.makedirs(os.path.join(hl, "ro", "sub"))
    with open(os.path.join(hl, "ro", "sub", "inner.txt"), "wb") as f:
        f.write(b"out of reach\n")
    os.chmod(os.path.join(hl, "ro"), 0o744)
    try:
        cols = ["path", "size", "sha1", "sha256", "line_count", "contains('line')"]
        qb = "%s from hl/live into list" % ", ".join(cols)
        base = runner.run([qb], cwd=w, home=home, uid=NOBODY)
        res.ev()
        if base.verdict == "ok" and base.rc == 0 and not base.err:
            want = sorted(base.rows(len(cols)))
            if any(row[2] == "" or row[3] == "" for row in want):
                res.viol("hash of a readable file is empty in a fault-free run", {"query": qb, "rows": want[:4]})
            for frm, tail in (("hl/ro, hl/live", ""), ("hl/live, hl/ro", ""), ("hl", ""), ("hl dfs", ""), ("hl/ro, hl/live", " order by path"),
                              ("hl", " order by size desc, path")):
                q = "%s from %s%s into list" % (", ".join(cols), frm, tail)
                r = runner.run([q], cwd=w, home=home, uid=NOBODY)
                res.ev()
                ctx = {"query": q, "baseline": qb, "result": r.brief()}
                if not judge_basic(res, r, q, ctx):
                    continue
                try:
                    rows = r.rows(len(cols))
                except ValueError as e:
                    res.viol("`%s`: undecodable output (%s)" % (q, e), ctx)
                    continue
                if r.rc != 1 or b"hl/ro/sub" not in r.err:
                    res.viol("`%s`: the directory hl/ro/sub cannot be entered, but the status is %s and stderr %r (expected status 1 and the path named)" % (
                        q, r.rc, r.err[:160]), ctx)
                    continue
                got = sorted(row for row in rows if row[0].startswith("hl/live/"))
                if got != want:
                    ctx["expected"], ctx["got"] = want[:4], got[:4]
                    res.viol("entries of an unsearchable directory that are hard links to readable files elsewhere changed the rows of those files "
                             "(`%s` against `%s`)" % (q, qb), ctx)
                    continue
                res.cover("eacces_paths", "unsearchable-dir-with-aliases")
                res.nt("unsearchable|%s%s|%d" % (frm, tail, len(want)))
    finally:
        os.chmod(os.path.join(hl, "ro"), 0o755)


# ---- (b) syscall-level fault injection -------------------------------------------------------------

CALL_RE = re.compile(r"^\d+\s+(\w+)\((.*)\)\s+=\s+(-?\d+|\?)")


def unescape(s):
    """strace prints non-ASCII bytes of paths as C escapes (\\346\\227...): decode them back to text."""
    if "\\" not in s:
        return s
    out = bytearray()
    i = 0
    b = s.encode("utf-8", "surrogateescape")
    while i < len(b):
        c = b[i]
        if c == 0x5c and i + 1 < len(b):
            n = b[i + 1:i + 2]
            if n.isdigit():
                j = i + 1
                while j < len(b) and j < i + 4 and b[j:j + 1].isdigit():
                    j += 1
                out.append(int(b[i + 1:j], 8) & 0xff)
                i = j
                continue
            m = {b"n": 10, b"t": 9, b"r": 13, b"\\": 0x5c, b'"': 0x22, b"v": 11, b"f": 12, b"e": 27, b"a": 7, b"b": 8}.get(n)
            if m is not None:
                out.append(m)
                i += 2
                continue
        out.append(c)
        i += 1
    return out.decode("utf-8", "surrogateescape")


def parse_trace(text, scratch_prefix):
    """Returns {syscall: [(index, path, line)]} for calls that touch the scratch tree (index = 1-based per syscall)."""
    out = collections.defaultdict(list)
    counts = collections.Counter()
    opened = {}          # fd -> path as given to openat (strace -y shows the resolved target of a link instead)
    for line in text.splitlines():
        m = CALL_RE.match(line)
        if not m:
            continue
        name, args = m.group(1), m.group(2)
        counts[name] += 1
        path = None
        if name == "getdents64":
            mm = re.match(r"\d+<([^>]*)>", args)
            path = mm.group(1) if mm else None
        elif name == "openat":
            mm = re.match(r'(?:AT_FDCWD|\d+)<([^>]*)>, "([^"]*)", ([A-Z_|]+)', args)
            if mm:
                p = mm.group(2)
                path = p if p.startswith("/") else os.path.normpath(os.path.join(mm.group(1), p))
                if "O_DIRECTORY" not in mm.group(3):
                    name = "openat-file"
                if m.group(3) not in ("?", "-1"):
                    opened[m.group(3)] = path
        elif name in ("statx", "newfstatat"):
            mm = re.match(r'(?:AT_FDCWD|\d+)<([^>]*)>, "([^"]*)"', args)
            if mm:
                p = mm.group(2)
                path = p if p.startswith("/") else os.path.normpath(os.path.join(mm.group(1), p)) if p else mm.group(1)
        elif name in ("readlink",):
            mm = re.match(r'"([^"]*)"', args)
            path = mm.group(1) if mm else None
        elif name == "read":
            mm = re.match(r"(\d+)<([^>]*)>", args)
            path = (opened.get(mm.group(1)) or mm.group(2)) if mm else None
        if path:
            path = unescape(path)
        if path and path.startswith(scratch_prefix):
            out[name].append((counts[m.group(1)], path, line[:160]))
    return out


def job_manyfail(res, rng, sc, w, job):
    """Very many failures in one run: the status is 1 whatever their number (255, 256, 257, 512 unlistable directories)."""
    home = world_writable_home(sc)
    root = os.path.join(w, "t")
    os.mkdir(root)
    n = job["n"]
    for i in range(n):
        os.mkdir(os.path.join(root, "d%04d" % i))
        open(os.path.join(root, "d%04d" % i, "f"), "w").close()
    for i in range(5):
        open(os.path.join(root, "ok%d" % i), "w").close()
    for i in range(n):
        os.chmod(os.path.join(root, "d%04d" % i), 0)
    try:
        for q in ("path from t into list", "path from t dfs into list", "count(*) from t into list"):
            r = runner.run([q], cwd=w, home=home, uid=NOBODY)
            res.ev()
            ctx = {"query": q, "unlistable_directories": n, "result": {"rc": r.rc, "verdict": r.verdict, "stderr_head": r.err[:200].decode("utf-8", "replace")}}
            if r.verdict != "ok":
                if r.verdict in ("busy", "blocked"):
                    res.viol("`%s` with %d unlistable directories: %s" % (q, n, r.verdict), ctx)
                continue
            nerr = r.err.count(b"Permission denied")
            rows = r.rows()
            want_rows = [str(n + 5)] if q.startswith("count") else None
            if r.rc != 1 or nerr != n or (want_rows is not None and rows != want_rows) or (want_rows is None and len(rows) != n + 5):
                res.viol("`%s` with %d unlistable directories: status %s, %d diagnostics, %d rows (expected status 1, %d diagnostics, %s)" % (
                    q, n, r.rc, nerr, len(rows), n, "count %d" % (n + 5) if want_rows else "%d rows" % (n + 5)), ctx)
                continue
            res.cover("eacces_paths", "many-failures-%d" % n)
            res.nt("manyfail|%d|%s" % (n, q))
    finally:
        for i in range(n):
            os.chmod(os.path.join(root, "d%04d" % i), 0o755)


def job_sysfault(res, rng, sc, w, job):
    home = runner.make_home(sc, config="")
    root = os.path.join(w, "t")
    os.mkdir(root)
    snap = small_tree(rng, root, n=rng.randint(5, 11))
    tprefix = os.path.realpath(root)
    q = rng.choice(["path from t into list", "path, size from t dfs into list", "path, size, line_count from t into list",
                    "path, sha1 from t order by path into list"])
    ncols = q.split(" from ")[0].count(",") + 1
    syscalls = "getdents64,openat,statx,newfstatat,readlink,read"
    # traced with the hook log enabled, exactly like the injected runs (the log file is one more openat)
    base = runner.run([q], cwd=w, home=home, trace=True, strace=["-y", "-e", "trace=" + syscalls])
    res.ev()
    if base.verdict != "ok" or base.rc != 0 or base.err:
        res.viol("fault-free run: status %s stderr %r" % (base.rc, base.err[:200]), {"query": q, "result": base.brief()})
        return
    brows = base.rows(ncols) if ncols > 1 else [(x,) for x in base.rows()]
    calls = parse_trace(base.strace or "", tprefix)
    plan = []
    for name, errs in (("getdents64", ["EIO"]), ("openat", ["EACCES", "ENOENT", "ENOTDIR"]), ("readlink", ["EACCES", "EIO"]),
                       ("statx", ["EACCES", "ENOENT"]), ("newfstatat", ["EIO"]), ("openat-file", ["EACCES", "EMFILE"]), ("read", ["EIO"])):
        for (idx, path, line) in calls.get(name, []):
            for e in errs:
                plan.append((name, idx, path, e))
    if job.get("max_faults") and len(plan) > job["max_faults"]:
        must = [p for p in plan if p[0] in ("getdents64", "openat")]
        rest = [p for p in plan if p[0] not in ("getdents64", "openat")]
        plan = must + rng.sample(rest, max(0, min(len(rest), job["max_faults"] - len(must))))
    for name, idx, path, errno in plan:
        sysname = "openat" if name == "openat-file" else name
        r = runner.run([q], cwd=w, home=home, trace=True,
                       strace=["-e", "trace=" + sysname, "-e", "inject=%s:error=%s:when=%d" % (sysname, errno, idx)])
        res.ev()
        rel = os.path.relpath(path, tprefix)
        ctx = {"query": q, "fault": "%s #%d on %s -> %s" % (name, idx, rel, errno), "result": r.brief()}
        if not judge_basic(res, r, q, ctx):
            continue
        try:
            rows = r.rows(ncols) if ncols > 1 else [(x,) for x in r.rows()]
        except ValueError:
            res.viol("undecodable output under fault %s" % ctx["fault"], ctx)
            continue
        affected = "" if rel == "." else rel
        if name in ("statx", "newfstatat", "openat-file", "read") or (name == "readlink" and False):
            # a single entry (or, for a directory, its subtree) may be affected
            pass

        def is_aff(p):
            prel = p[2:] if p.startswith("t/") else p
            return affected == "" or prel == affected or prel.startswith(affected + "/")
        out_b = sorted(x for x in brows if not is_aff(x[0]))
        out_g = sorted(x for x in rows if not is_aff(x[0]))
        if out_b != out_g:
            ctx["lost"] = [x for x in out_b if x not in out_g][:4]
            ctx["changed_or_new"] = [x for x in out_g if x not in out_b][:4]
            res.viol("fault %s changed rows outside the failing path" % ctx["fault"], ctx)
            continue
        in_g = [x[0] for x in rows if is_aff(x[0])]
        if not set(in_g) <= set(x[0] for x in brows):
            res.viol("fault %s produced rows that do not exist" % ctx["fault"], ctx)
            continue
        if name in ("read", "openat-file") and affected:
            # the file's content could not be read: its content-derived cells are empty, its other cells unchanged
            cols = [c.strip() for c in q.split(" from ")[0].split(",")]
            b_row = next((x for x in brows if x[0] == "t/" + affected), None)
            g_row = next((x for x in rows if x[0] == "t/" + affected), None)
            if b_row is not None:
                if g_row is None:
                    res.viol("fault %s: the entry's row disappeared" % ctx["fault"], ctx)
                    continue
                bad = None
                for c, bv, gv in zip(cols, b_row, g_row):
                    if c in ("line_count", "sha1"):
                        if gv != "":
                            bad = "%s printed %r although the content could not be read" % (c, gv)
                    elif bv != gv:
                        bad = "%s changed from %r to %r" % (c, bv, gv)
                if bad:
                    res.viol("fault %s: %s" % (ctx["fault"], bad), ctx)
                    continue
                res.count("unreadable_content_cells_checked")
        err = r.err.decode("utf-8", "replace")
        nerr = sum(1 for ev in r.events if ev["ev"] == "err")
        if (r.rc == 1) != (nerr >= 1):
            res.viol("hook err: status %s with %d error events" % (r.rc, nerr), ctx)
            continue
        if r.rc == 1 and not err.strip():
            res.viol("status 1 without a diagnostic under fault %s" % ctx["fault"], ctx)
            continue
        if r.rc == 0 and err.strip():
            res.viol("status 0 but stderr %r under fault %s" % (err[:120], ctx["fault"]), ctx)
            continue
        if name in ("getdents64", "openat"):
            spelled = "t" if rel == "." else "t/" + rel
            if r.rc != 1 or spelled not in err:
                res.viol("directory fault %s: status %s, stderr %r - expected status 1 naming %s" % (ctx["fault"], r.rc, err[:160], spelled), ctx)
                continue
        res.count("faults_injected")
        res.cover("fault_sites", "%s/%s" % (name, errno))
        res.nt("sysfault|%s|%s|%d|%s" % (q, name, idx, errno))
    res.sample({"kind": "sysfault", "query": q, "entries": len(snap), "faults": len(plan),
                "calls": {k: len(v) for k, v in calls.items()}}, cap=2)


# ---- (c) consumer closes stdout ----------------------------------------------------------------------

def job_stdout(res, rng, sc, w, job):
    home = runner.make_home(sc, config="")
    root = os.path.join(w, "t")
    os.mkdir(root)
    small_tree(rng, root, n=job.get("entries", 14))
    for i in range(job.get("extra_files", 0)):
        open(os.path.join(root, "pad-%03d-%s" % (i, "x" * 40)), "w").close()
    queries = {"streamed": "path, size from t", "ordered": "path, size from t order by path", "aggregate": "count(*), sum(size), max(size) from t",
               "grouped": "is_dir, count(*) from t group by is_dir"}
    for path_kind in job["paths"]:
        for fmt in job["formats"]:
            q = "%s into %s" % (queries[path_kind], fmt)
            sink = os.path.join(sc, "stdout.%s.%s" % (path_kind, fmt))
            with open(sink, "wb") as f:
                base = runner.run([q], cwd=w, home=home, stdout=f, strace=["-e", "trace=write", "-P", sink])
            res.ev()
            if base.verdict != "ok" or base.rc != 0:
                res.viol("fault-free run of `%s`: status %s %r" % (q, base.rc, base.err[:120]), {"query": q})
                continue
            nwrites = len([l for l in (base.strace or "").splitlines() if re.match(r"^\d+\s+write\(", l)])
            res.cover("write_counts", "%s/%s:%d" % (path_kind, fmt, nwrites))
            for n in range(1, nwrites + 1):
                with open(sink, "wb") as f:
                    r = runner.run([q], cwd=w, home=home, stdout=f,
                                   strace=["-e", "trace=write", "-e", "inject=write:error=EPIPE:when=%d+" % n, "-P", sink])
                res.ev()
                ctx = {"query": q, "fault": "write #%d.. on stdout -> EPIPE (of %d writes)" % (n, nwrites), "result": r.brief()}
                if r.verdict != "ok":
                    res.viol("`%s` %s after stdout was closed" % (q, r.verdict), ctx) if r.verdict in ("busy", "blocked") else res.inc("watchdog")
                    continue
                if r.panicked or r.sig or r.rc not in (0, 1):
                    res.viol("`%s` (%s path): stdout closed at write #%d of %d -> status %s signal %s: %s" % (
                        q, path_kind, n, nwrites, r.rc, r.sig, r.err[:160].decode("utf-8", "replace").strip()), ctx)
                    continue
                res.count("stdout_write_faults_injected")
                res.nt("epipe|%s|%s|%d" % (path_kind, fmt, n))
            res.cover("stdout_fault_cells", "%s/%s" % (path_kind, fmt))
    # real pipes closed after k bytes
    for k in job.get("pipe_offsets", []):
        fmt = rng.choice(FORMATS)
        pk = rng.choice(list(queries))
        q = "%s into %s" % (queries[pk], fmt)
        env = {"HOME": home, "TZ": "UTC", "PATH": "/usr/bin:/bin", "NO_COLOR": "1"}
        p = subprocess.Popen([runner.binary(), q], cwd=w, env=env, stdin=subprocess.DEVNULL, stdout=subprocess.PIPE, stderr=subprocess.PIPE)
        try:
            try:
                fcntl.fcntl(p.stdout.fileno(), 1031, 4096)   # F_SETPIPE_SZ
            except OSError:
                pass
            got = b""
            while len(got) < k:
                chunk = os.read(p.stdout.fileno(), k - len(got))
                if not chunk:
                    break
                got += chunk
            p.stdout.close()
            try:
                err = p.stderr.read()
                rc = p.wait(timeout=30)
            except subprocess.TimeoutExpired:
                p.kill()
                res.inc("watchdog on a real pipe closure")
                continue
        finally:
            if p.poll() is None:
                p.kill()
        res.ev()
        ctx = {"query": q, "closed_after_bytes": k, "rc": rc, "stderr": err[:300].decode("utf-8", "replace")}
        if b"panicked at" in err or rc < 0 or rc not in (0, 1):
            res.viol("`%s`: pipe closed after %d bytes -> status %s: %s" % (q, k, rc, err[:160].decode("utf-8", "replace").strip()), ctx)
            continue
        res.count("real_pipe_closures")
        res.nt("pipe|%s|%s|%d" % (pk, fmt, k))
    res.sample({"kind": "stdout", "paths": job["paths"], "formats": job["formats"]}, cap=1)


def run_job(job):
    res = JobResult()
    rng = random.Random(job["seed"])
    sc = runner.new_scratch("c17")
    os.chmod(sc, 0o755)
    try:
        w = runner.work_dir(sc)
        {"eacces": job_eacces, "sysfault": job_sysfault, "stdout": job_stdout, "manyfail": job_manyfail}[job["kind"]](res, rng, sc, w, job)
    finally:
        runner.rm_scratch(sc)
    return res


def main(chk):
    quick = chk.tier == "quick"
    jobs = []
    for i in range(64 if quick else 300):
        jobs.append({"id": "ea%d" % i, "kind": "eacces", "seed": job_seed(chk.seed, "C17", "e%d" % i)})
    for i in range(48 if quick else 300):
        jobs.append({"id": "sf%d" % i, "kind": "sysfault", "seed": job_seed(chk.seed, "C17", "s%d" % i), "max_faults": 40 if quick else 0})
    for n_ in (255, 256, 257, 512) if quick else (1, 127, 128, 255, 256, 257, 511, 512, 513, 1024):
        jobs.append({"id": "many%d" % n_, "kind": "manyfail", "seed": 0, "n": n_})
    for pk in ("streamed", "ordered", "aggregate", "grouped"):
        for fmt in FORMATS:
            jobs.append({"id": "so-%s-%s" % (pk, fmt), "kind": "stdout", "seed": job_seed(chk.seed, "C17", "o%s%s" % (pk, fmt)), "paths": [pk],
                         "formats": [fmt], "entries": 10, "extra_files": 30 if quick else 120, "pipe_offsets": []})
    offsets = list(range(0, 65)) + [100, 500, 1000, 1023, 1024, 1025, 2000, 4095, 4096, 4097, 8192, 12000, 20000]
    for i in range(0, len(offsets), 13):
        jobs.append({"id": "pipe%d" % i, "kind": "stdout", "seed": job_seed(chk.seed, "C17", "p%d" % i), "paths": [], "formats": [],
                     "entries": 16, "extra_files": 200, "pipe_offsets": offsets[i:i + 13]})
    chk.run_jobs(jobs, budget_s=540 if quick else 3300)
    return chk.finish(
        rule="(a) real EACCES: every single directory (and sampled pairs) of each tree chmod 000, searched as uid 65534 on the streamed, dfs, "
             "ordered and aggregate paths - rows/aggregates must equal the readable rest, stderr names the directory, status 1; unreadable "
             "files: only content cells empty, aggregates over readable data; (b) syscall faults with strace -e inject: a fault-free run is "
             "traced, then EVERY getdents64 and openat(O_DIRECTORY) call and (sampled in the quick tier) every readlink/statx/newfstatat/"
             "openat(file)/read call on the tree fails once with EIO/EACCES/ENOENT/ENOTDIR/EMFILE - rows outside the failing path "
             "unchanged, status 1 iff an error was counted (err hook), diagnostics present; (c) stdout: EVERY write(2) index of the "
             "fault-free run fails with EPIPE from that index on, for 6 formats x 4 result paths, plus real 4 KiB pipes closed after k "
             "bytes (k = 0..64 and a grid to 20000). Non-trivial: every injected fault; distinct by (site, index, errno / path set).",
        assumptions=["strace -e inject returns the error without running the syscall; EPIPE is delivered without SIGPIPE exactly as in the real "
                     "binary, which ignores SIGPIPE", "uid 65534 has no access to directories with mode 000",
                     "rows inside a failing directory may be any subset of the fault-free rows"],
        require={"eacces_paths": 6, "fault_sites": 8, "stdout_fault_cells": 24, "real_pipe_closures": 60, "blocked_directory_sets": 20},
        exhaustive={"stdout_write_indices": "all, per format x result path", "directory_syscalls": "every getdents64 / openat(O_DIRECTORY) of the traced run",
                    "blocked_directories": "every single directory of each tree"},
    )
