"""C15 - expressions follow arithmetic rules and each column is evaluated on its own."""
import itertools
import math
import os
import random
import re
import zipfile

from .. import model, runner, tree
from ..core import JobResult, job_seed

SYM = {"+": ["+", "plus"], "-": ["-", "minus"], "*": ["*", "mul"], "/": ["/", "div"], "%": ["%", "mod"]}
LEAVES = ["size", "hardlinks", "length(name)", "uid"]


def gen_expr(rng, depth):
    """AST: ('lit', n) | ('col', name) | ('neg', leaf) | ('fn', name, [args]) | ('bin', op, l, r)"""
    if depth == 0 or rng.random() < 0.25:
        c = rng.random()
        if c < 0.4:
            # ... and numbers that read as years or dates: next to `/`, `*`, `%`, `+` they are numbers like any other
            return ("lit", rng.choice([0, 1, 2, 3, 5, 7, 10, 100, 1000, 12345, 4294967296, 10 ** 10, 3037000500, 9007199254740993,
                                       1970, 1999, 2000, 2024, 2048, 2999, 20480, 19991231]))
        if c < 0.85:
            return ("col", rng.choice(LEAVES))
        if c < 0.93:
            return ("neg", ("col", rng.choice(LEAVES)))
        return ("neg", ("lit", rng.choice([1, 2, 5, 100])))
    if rng.random() < 0.12:
        f = rng.choice(["abs", "length", "least", "greatest", "power"])
        if f == "abs":
            return ("fn", "abs", [gen_expr(rng, depth - 1)])
        if f == "length":
            return ("fn", "length", [("col", rng.choice(["name", "ext"]))])
        if f == "power":
            return ("fn", "power", [("col", rng.choice(["hardlinks", "uid"])), ("lit", rng.choice([0, 1, 2, 3]))])
        return ("fn", f, [gen_expr(rng, depth - 1), gen_expr(rng, depth - 1)])
    op = rng.choice(["+", "-", "*", "/", "%", "+", "-", "*"])
    return ("bin", op, gen_expr(rng, depth - 1), gen_expr(rng, depth - 1))


PREC = {"+": 1, "-": 1, "*": 2, "/": 2, "%": 2}


def render(e, rng, parent=0, right=False, words=False, extra=0.1):
    k = e[0]
    if k == "lit":
        return str(e[1])
    if k == "col":
        return e[1]
    if k == "neg":
        return "-" + render(e[1], rng, 9)
    if k == "fn":
        return "%s(%s)" % (e[1], ", ".join(render(a, rng, 0, words=words) for a in e[2]))
    op = e[1]
    l = render(e[2], rng, PREC[op], False, words, extra)
    r = render(e[3], rng, PREC[op], True, words, extra)
    if r.startswith("-") and not words:
        r = "(" + r + ")" if rng.random() < 0.5 else r
    sym = rng.choice(SYM[op]) if words else op
    fmt = "%s %s %s"
    if not sym.isalpha() and not r.startswith("-") and rng.random() < 0.35:
        fmt = rng.choice(["%s%s%s", "%s%s%s", "%s %s%s", "%s%s %s"])      # symbols need no blanks around them: `(size*2)+1`
    if sym == "-" and re.search(r"[0-9]{4}$", l):
        # four digits that read as a year (also inside a longer number) with a minus glued to them are the beginning of a date
        # (`2024-01`), by design
        fmt = rng.choice(["%s %s %s", "%s %s%s"])
    s = fmt % (l, sym, r)
    need = PREC[op] < parent or (PREC[op] == parent and right)
    if need or rng.random() < extra:
        b = rng.choice(["()", "{}"])
        s = b[0] + s + b[1]
    return s


def fdiv(a, b):
    if b == 0:
        if a == 0 or a != a:
            return float("nan")
        return math.copysign(float("inf"), a) * (math.copysign(1.0, b))
    return a / b


def fmod(a, b):
    if b == 0 or a != a or b != b or a in (float("inf"), float("-inf")):
        return float("nan")
    if b in (float("inf"), float("-inf")):
        return a
    return math.fmod(a, b)


def evaluate(e, env):
    k = e[0]
    if k == "lit":
        return float(e[1])
    if k == "col":
        return float(env[e[1]])
    if k == "neg":
        if e[1][0] == "col":
            return float(-env[e[1][1]])     # integer column: no negative zero
        return -evaluate(e[1], env)
    if k == "fn":
        args = [evaluate(a, env) if a[0] != "col" or a[1] not in ("name", "ext") else env[a[1]] for a in e[2]]
        if e[1] == "abs":
            return abs(args[0])
        if e[1] == "length":
            return float(len(args[0]))
        if e[1] == "least":
            return fmin(args)
        if e[1] == "greatest":
            return fmax(args)
        if e[1] == "power":
            try:
                return math.pow(args[0], args[1])
            except (OverflowError, ValueError):
                return None
    op, a, b = e[1], evaluate(e[2], env), evaluate(e[3], env)
    if a is None or b is None:
        return None
    if op == "+":
        return a + b
    if op == "-":
        return a - b
    if op == "*":
        return a * b
    if op == "/":
        return fdiv(a, b)
    return fmod(a, b)


def fmin(xs):
    r = xs[0]
    for x in xs[1:]:
        if x is None or r is None:
            return None
        if x != x:
            continue
        r = x if (r != r or x < r) else r
    return r


def fmax(xs):
    r = xs[0]
    for x in xs[1:]:
        if x is None or r is None:
            return None
        if x != x:
            continue
        r = x if (r != r or x > r) else r
    return r


def same_float(cell, want):
    try:
        got = float(cell)
    except ValueError:
        return False
    if want != want:
        return got != got
    return got == want


def has_nan_fn(e):
    """least/greatest with NaN operands: the documentation does not define it -> don't-care."""
    return False


def monitor_memo(res, r, ctx):
    """O3 `memo` events: within one row and one value map, two lookups under the same key must come from
    structurally equal expressions (else a cached value of a different expression is served)."""
    maps = {}
    n = 0
    for ev in r.events:
        if ev["ev"] == "chk":
            maps = {}
        elif ev["ev"] == "memo":
            n += 1
            key = (ev["map"], ev["key"])
            first = maps.get(key)
            if first is None:
                maps[key] = ev["expr"]
            elif first != ev["expr"] and ev["hit"] == "true":
                res.viol("hook memo: cache key %r serves two different expressions" % ev["key"], dict(ctx, exprs=[first[:300], ev["expr"][:300]]))
                return
    res.count("hook_memo_events", n)


def run_job(job):
    res = JobResult()
    rng = random.Random(job["seed"])
    sc = runner.new_scratch("c15")
    try:
        w = runner.work_dir(sc)
        home = runner.make_home(sc)
        root = os.path.join(w, "t")
        os.mkdir(root)
        nodes = []
        for i in range(rng.randint(3, 9)):
            nodes.append({"path": rng.choice(["f", "file", "a", "xyz.txt", "long-name.tar", "q.c"]) + str(i), "kind": "file",
                          "size": rng.choice([0, 1, 2, 5, 6, 7, 10, 11, 100, 1000, 1023, 1024, 4097, 65536, 99999]),
                          "owner": (rng.choice([0, 1, 3, 10]), 0)})
        tree.materialise(root, nodes)
        for k in range(min(2, len(nodes))):
            os.link(os.path.join(root, nodes[k]["path"]), os.path.join(root, "hl%d" % k))
        # every third job also searches a zip archive: its members are rows like any other (of a member only `size` is modelled;
        # the independence oracles below apply to every row)
        frm = "t"
        members = {}
        if job.get("archives"):
            frm = "t archives"
            with zipfile.ZipFile(os.path.join(root, "pack.zip"), "w") as z:
                for k, sz in enumerate(rng.sample([0, 1, 7, 9, 10, 100, 704, 1000, 4097], rng.randint(2, 5))):
                    z.writestr("m%d.txt" % k, b"z" * sz)
                    members["[t/pack.zip] m%d.txt" % k] = sz
        snap = tree.snapshot(root)
        envs = {}
        for e in snap:
            envs[e.abs] = {"size": e.st.st_size, "hardlinks": e.st.st_nlink, "length(name)": len(e.name), "uid": e.st.st_uid,
                           "name": e.name, "ext": model.ext_of(e.name)}

        for key, sz in members.items():
            envs[os.path.normpath(os.path.join(w, key))] = {"size": sz}

        def ev(a, env):
            try:
                return evaluate(a, env)
            except KeyError:        # a column that is not modelled for this row (zip member)
                return None

        def run(q, trace=False):
            res.ev()
            return runner.run([q], cwd=w, home=home, trace=trace)

        def cells_for(exprtexts, trace=False):
            q = "path, %s from %s into list" % (", ".join(exprtexts), frm)
            r = run(q, trace)
            if r.verdict != "ok" or r.rc != 0 or r.err or r.panicked:
                return q, r, None
            try:
                rows = r.rows(len(exprtexts) + 1)
            except ValueError:
                return q, r, None
            return q, r, {os.path.normpath(os.path.join(w, row[0])): list(row[1:]) for row in rows}

        pool = []
        for qi in range(job["queries"]):
            n = rng.randint(1, 5)
            words = rng.random() < 0.25
            asts = [gen_expr(rng, rng.randint(1, 4)) for _ in range(n)]
            if n >= 2 and rng.random() < 0.5:
                # a sibling that differs only in an operator, bracket placement or a later function argument
                base = asts[0]
                if base[0] == "bin":
                    alt = rng.choice([o for o in "+-*/%" if o != base[1]])
                    asts[1] = ("bin", alt, base[2], base[3])
                    if n >= 3 and base[3][0] == "bin":
                        asts[2] = ("bin", base[3][1], ("bin", base[1], base[2], base[3][2]), base[3][3])
                elif base[0] == "fn" and len(base[2]) == 2:
                    asts[1] = ("fn", base[1], [base[2][0], ("lit", 77)])
            directed = None
            if members and rng.random() < 0.5:
                # a call whose later argument is a column (also negated): evaluable for zip members too
                directed = rng.choice([("fn", "least", [("lit", 50), ("col", "size")]), ("fn", "greatest", [("lit", -1000), ("neg", ("col", "size"))]),
                                       ("fn", "least", [("bin", "+", ("col", "size"), ("lit", 1)), ("bin", "*", ("col", "size"), ("lit", 2))]),
                                       ("fn", "greatest", [("lit", 5), ("bin", "-", ("col", "size"), ("lit", 3))])])
                asts[rng.randrange(len(asts))] = directed
            texts = [render(a, rng, words=words) for a in asts]
            if rng.random() < 0.15:
                # a quoted text literal spelling the display name of a column selected next to it
                lit = rng.choice(["Size", "Hardlinks", "Uid", "Name", "Length(Name)", "(Size + 1)"])
                asts.append(("text", lit))
                texts.append("'%s'" % lit)
                n += 1
            if len(set(texts)) != len(texts):
                continue
            q, r, table = cells_for(texts, trace=(qi % 3 == 0))
            pool.append(q)
            ctx = {"query": q, "result": r.brief()}
            if table is None:
                if r.verdict == "busy":
                    res.viol("busy loop on `%s`" % q, ctx)
                elif r.verdict != "ok":
                    res.inc("watchdog")
                else:
                    res.viol("valid expression list rejected: `%s` status %s stderr %r" % (q, r.rc, r.err[:150]), ctx)
                continue
            if r.events:
                monitor_memo(res, r, ctx)
            bad = False
            for pth, cells in table.items():
                env = envs.get(pth)
                if env is None:
                    continue
                for a, t, c in zip(asts, texts, cells):
                    if a[0] == "text":
                        if c != a[1]:
                            res.viol("text literal %s printed %r (select list: %s)" % (t, c, texts), ctx)
                            bad = True
                            break
                        continue
                    want = ev(a, env)
                    if want is None:
                        continue
                    if not same_float(c, want):
                        res.viol("`%s` for %s (size %d, hardlinks %s, uid %s) printed %r, IEEE value %r (select list: %s)" % (
                            t, os.path.basename(pth), env["size"], env.get("hardlinks"), env.get("uid"), c, want, texts), ctx)
                        bad = True
                        break
                if bad:
                    break
            if bad:
                continue
            # column independence: each expression selected alone, and a permutation of the list
            if n >= 2:
                perm = list(range(n))
                rng.shuffle(perm)
                q2, r2, t2 = cells_for([texts[i] for i in perm])
                if t2 is None:
                    res.viol("permuted select list rejected: `%s`" % q2, {"query": q2, "result": r2.brief()})
                    continue
                for pth in table:
                    for j, i in enumerate(perm):
                        if t2[pth][j] != table[pth][i]:
                            res.viol("column `%s` prints %r in %s but %r in %s" % (texts[i], table[pth][i], texts, t2[pth][j], [texts[k] for k in perm]),
                                     {"query": q, "query2": q2})
                            bad = True
                            break
                    if bad:
                        break
                if bad:
                    continue
                i = rng.randrange(n)
                q3, r3, t3 = cells_for([texts[i]])
                if t3 is None:
                    res.viol("single-column select rejected: `%s`" % q3, {"query": q3, "result": r3.brief()})
                    continue
                if any(t3[p][0] != table[p][i] for p in table):
                    res.viol("column `%s` selected alone differs from its value inside %s" % (texts[i], texts), {"query": q, "query3": q3})
                    continue
                res.count("independence_checked")
            # WHERE on an expression
            with_col = [x for x in asts if "'col'" in repr(x) and x[0] != "text"]
            if not with_col:
                continue
            a = directed if directed in with_col else rng.choice(with_col)     # a bare literal is text, not an expression value
            t = texts[asts.index(a)]
            vals = [ev(a, envs[p]) for p in table if p in envs]
            finite = [v for v in vals if v is not None and v == v and abs(v) != float("inf")]
            if finite and len(finite) == len(vals):
                lit = rng.choice(finite)
                if lit == int(lit) and abs(lit) < 1e15:
                    op = rng.choice([">", ">=", "<", "<=", "=", "!=", "===", "!==", "eeq", "ene", "gte", "lt", "ne"])
                    littxt = str(int(lit))
                    qw = "path from %s where %s %s %s into list" % (frm, t, op, littxt)
                    rw = run(qw)
                    if rw.verdict == "ok" and rw.rc == 0 and not rw.err:
                        got = set(os.path.normpath(os.path.join(w, x)) for x in rw.rows())
                        exp = set(p for p in table if p in envs and model.int_cmp(model.canon_op(op), ev(a, envs[p]), float(int(lit))))
                        if got != exp:
                            res.viol("`where %s %s %s`: %d entries misclassified against the expression's IEEE value" % (t, op, littxt, len(got ^ exp)),
                                     {"query": qw, "diff": sorted(os.path.basename(x) for x in got ^ exp)[:6]})
                            continue
                        res.count("where_on_expression_checked")
                        # a comparison written the other way round, with the number spelled as arithmetic over literals
                        # (`2 * 3 < size` for `size > 6`): a constant expression has a value like any other. The right operand
                        # is a plain column: a glued `size*2` there is one unquoted value (`name = *.txt`), by design
                        mirror = {">": "<", ">=": "<=", "<": ">", "<=": ">=", "=": "=", "!=": "!=", "===": "===", "!==": "!==",
                                  "eeq": "eeq", "ene": "ene", "gte": "lte", "lt": "gt", "ne": "ne"}[op]
                        c_ = rng.choice(["size", "size", "hardlinks", "uid"])
                        if any(c_ not in envs[p] for p in table if p in envs):
                            c_ = "size"
                        n_ = int(rng.choice([envs[p][c_] for p in table if p in envs]))
                        k_ = rng.randint(1, 9)
                        forms = ["%d - %d" % (n_ + k_, k_)]
                        if n_ >= k_:
                            forms.append("%d + %d" % (n_ - k_, k_))
                        if n_ > 0 and n_ % k_ == 0:
                            forms.append("%d * %d" % (n_ // k_, k_))
                        if 0 <= n_ < 10 ** 6:
                            forms.append("%d / %d" % (n_ * k_, k_))
                        left = rng.choice(forms)
                        if rng.random() < 0.3:
                            left = "(" + left + ")"
                        qm = "path from %s where %s %s %s into list" % (frm, left, mirror, c_)
                        rm_ = run(qm)
                        if rm_.verdict == "ok" and rm_.rc == 0 and not rm_.err:
                            gotm = set(os.path.normpath(os.path.join(w, x)) for x in rm_.rows())
                            expm = set(p for p in table if p in envs and model.int_cmp(model.canon_op(op), float(envs[p][c_]), float(n_)))
                            if gotm != expm:
                                res.viol("`where %s %s %s`: %d entries misclassified (it says %s %s %d)" % (
                                    left, mirror, c_, len(gotm ^ expm), c_, op, n_),
                                    {"query": qm, "diff": sorted(os.path.basename(x) for x in gotm ^ expm)[:6]})
                                continue
                            res.count("where_with_literal_arithmetic_on_the_left")
                        elif rm_.verdict == "ok":
                            res.viol("`%s`: status %s stderr %r" % (qm, rm_.rc, rm_.err[:120]), {"query": qm, "result": rm_.brief()})
                            continue
                    elif rw.verdict == "ok":
                        res.viol("`%s`: status %s stderr %r" % (qw, rw.rc, rw.err[:120]), {"query": qw, "result": rw.brief()})
                        continue
            for a in asts:
                res.cover("root_kinds", a[0] + (a[1] if a[0] in ("bin", "fn") else ""))
                if a[0] == "text":
                    res.count("text_literal_next_to_columns")
            res.cover("operator_spelling", "words" if words else "symbols")
            res.cover("list_len", n)
            res.cover("from", frm)
            res.nt("|".join(texts))
            res.sample({"query": q, "row": list(table.values())[0]}, cap=3)
        # history: in interactive mode (`fselect -i`) the same queries run in one process, one after the other - each must
        # print what it prints when run alone
        if len(pool) >= 2 and job.get("session", True):
            runner.session_matches(res, rng.sample(pool, min(4, len(pool))), w, home, "expression columns")
    finally:
        runner.rm_scratch(sc)
    return res


def main(chk):
    quick = chk.tier == "quick"
    n = 640 if quick else 3000
    jobs = [{"id": "j%d" % i, "seed": job_seed(chk.seed, "C15", i), "queries": 12 if quick else 24, "archives": i % 3 == 1} for i in range(n)]
    if not quick:
        jobs += chk.shard(jobs[:200], "arith", 200)
    chk.run_jobs(jobs, budget_s=300 if quick else 3000)
    return chk.finish(
        rule="select lists of 1..5 expressions (depth <= 4) over integer literals, size, hardlinks, uid, length(name), abs/least/greatest/"
             "power/length calls, operator symbols and words, unary minus on numbers and columns, redundant round/curly brackets; lists "
             "deliberately contain siblings differing only in an operator, bracket placement or a later function argument. Each cell is "
             "parsed with float() and compared exactly with the IEEE-754 value computed in Python (NaN/inf by class); a permutation of the "
             "list and one column selected alone must print identical values; `where <expr> <op> n` is compared with the model value. "
             "Non-trivial: every list (>= 3 entries evaluated); distinct by the rendered select list.",
        assumptions=["Python floats implement the same IEEE-754 double arithmetic (+ - * /, fmod) as Rust f64",
                     "power() overflow/domain cases are don't-care"],
        require={"root_kinds": 8, "independence_checked": 50, "where_on_expression_checked": 20, "where_with_literal_arithmetic_on_the_left": 10},
    )
