"""C01 - traversal is exact: every entry in the depth window, once, nothing else; bfs/dfs order."""
import collections
import itertools
import os
import random

from .. import runner, tree
from ..core import JobResult, job_seed

ROOT_NAMES = ["r0", "r-1", "r 2", "ŕ3", "R4.d", "r_5"]


def q(s):
    """Quote a path for the query language when needed."""
    if any(c in s for c in " ,(){}'\"`") or not s:
        return "'" + s + "'" if "'" not in s else '"' + s + '"'
    return s


def in_window(level, a, b):
    return (a == 0 or level >= a) and (b == 0 or level <= b)


def enum_shapes(max_dirs):
    """Every rooted ordered-forest shape of directories with <= max_dirs directories, as parent vectors
    (parent[i] < i, -1 = root). Unordered duplicates are kept out by requiring a canonical form."""
    shapes = []

    def rec(parents):
        shapes.append(tuple(parents))
        if len(parents) >= max_dirs:
            return
        lo = parents[-1] if parents else -1
        for p in range(-1, len(parents)):
            # canonical: new node's parent index must be >= parent of previous node (pre-order, rightmost path)
            if p >= lo or True:
                rec(parents + [p])

    rec([])
    # dedupe by canonical string
    seen = {}
    for s in shapes:
        children = {}
        for i, p in enumerate(s):
            children.setdefault(p, []).append(i)

        def canon(n):
            return "(" + "".join(sorted(canon(c) for c in children.get(n, []))) + ")"

        seen.setdefault(canon(-1), s)
    return list(seen.values())


def shape_recipe(parents):
    nodes = []
    paths = {}
    for i, p in enumerate(parents):
        path = ("d%d" % i) if p == -1 else paths[p] + "/d%d" % i
        paths[i] = path
        nodes.append({"path": path, "kind": "dir"})
    # one file in every directory (incl. root) and a symlink to a dir in the root
    nodes.append({"path": "f", "kind": "file", "size": 1})
    for i in range(len(parents)):
        nodes.append({"path": paths[i] + "/f%d" % i, "kind": "file", "size": 1})
    if parents:
        nodes.append({"path": "lnk", "kind": "symlink", "target": "d0"})
    return nodes


def check_order(rows_lv, mode, entries_by_abs, res, ctxs):
    """rows_lv: list of (root_idx, entry) in output order."""
    if mode in ("", "bfs"):
        last = {}
        for ri, e in rows_lv:
            if e.level < last.get(ri, 0):
                res.viol("bfs: entry of depth %d follows an entry of depth %d in the same root" % (
                    e.level, last[ri]), ctxs)
                return
            last[ri] = e.level
    elif mode == "dfs":
        n = len(rows_lv)
        reported = {}
        for ri, e in rows_lv:
            reported.setdefault(ri, []).append(e)
        for i, (ri, e) in enumerate(rows_lv):
            if e.kind != "dir":
                continue
            pref = e.rel + "/"
            want = sum(1 for x in reported[ri] if x.rel.startswith(pref))
            block = rows_lv[i + 1:i + 1 + want]
            if len(block) != want or any(r != ri or not x.rel.startswith(pref) for r, x in block):
                res.viol("dfs: directory %r is not immediately followed by its %d reported descendants" % (
                    e.rel, want), ctxs)
                return


def run_case(res, w, home, roots, snaps, spec, trace, extra=""):
    """roots: list of (dirname under w); spec: list of (root_idx, spelling, a, b, mode) ; cwd handling inside."""
    cwd = w
    parts = []
    single_dot = spec[0][1] in (".", "implicit")
    if single_dot:
        cwd = os.path.join(w, roots[spec[0][0]])
    for (ri, spelling, a, b, mode) in spec:
        name = roots[ri]
        if name.startswith("~/"):
            # a root below the home directory, written with a tilde (or with the directory it stands for)
            p = name if spelling == "tilde" else os.path.join(home, name[2:])
        elif spelling in (".", "implicit"):
            p = "."
        elif spelling == "rel":
            p = name
        elif spelling == "dotrel":
            p = "./" + name
        elif spelling == "abs":
            p = os.path.join(w, name)
        elif spelling == "relslash":
            p = name + "/"
        elif spelling == "absslash":
            p = os.path.join(w, name) + "/"
        else:
            raise ValueError(spelling)
        s = q(p)
        if a is not None:
            s += " mindepth %d" % a
        if b is not None:
            s += " maxdepth %d" % b
        if mode:
            s += " " + mode
        parts.append(s)
    if spec[0][1] == "implicit":
        opts = parts[0][len(q(".")):].strip()
        # without `from`, root options cannot be given; only use implicit with no options
        query = "path%s into list" % extra if not opts else "path%s from " % extra + parts[0] + " into list"
    else:
        query = "path%s from " % extra + ", ".join(parts) + " into list"
    r = runner.run([query], cwd=cwd, home=home, trace=trace)
    res.ev()
    ctxs = {"query": query, "cwd": cwd, "result": r.brief()}
    if r.verdict != "ok":
        if r.verdict == "busy":
            res.viol("busy loop (CPU limit) on a traversal query", ctxs)
        else:
            res.inc("watchdog: " + r.verdict)
        return
    if r.rc != 0 or r.err:
        res.viol("status %s / stderr %r on a fully readable tree" % (r.rc, r.err[:200]), ctxs)
        return
    try:
        rows = [x[0] for x in r.rows(1 + extra.count(","))] if extra else r.rows()
    except ValueError as e:
        res.viol("undecodable output: %s" % e, ctxs)
        return
    # expected multiset
    expected = {}
    by_abs = {}
    for (ri, spelling, a, b, mode) in spec:
        for e in snaps[ri]:
            if in_window(e.level, a or 0, b or 0):
                expected[e.abs] = expected.get(e.abs, 0) + 1
            by_abs[e.abs] = (ri, e)
    got = {}
    rows_lv = []
    for row in rows:
        a_ = os.path.normpath(os.path.join(cwd, row))
        got[a_] = got.get(a_, 0) + 1
        if a_ in by_abs:
            rows_lv.append(by_abs[a_])
    if got != expected:
        missing = sorted(k for k in expected if got.get(k, 0) < expected[k])[:5]
        extra = sorted(k for k in got if got[k] > expected.get(k, 0))[:5]
        ctxs["missing"] = missing
        ctxs["extra"] = extra
        res.viol("row multiset differs from the in-window entries: %d missing (e.g. %s), %d extra/duplicate (e.g. %s)" % (
            sum(1 for k in expected if got.get(k, 0) < expected[k]), [os.path.relpath(m, w) for m in missing[:2]],
            sum(1 for k in got if got[k] > expected.get(k, 0)), [os.path.relpath(m, w) for m in extra[:2]]), ctxs)
        return
    # order monitors (per root modes may differ: check each root's rows with its own mode)
    for (ri, spelling, a, b, mode) in spec:
        check_order([x for x in rows_lv if x[0] == ri], " ".join(m for m in mode.split() if m in ("bfs", "dfs")), by_abs, res, ctxs)
    if any("symlinks" in s[4] for s in spec) and any("symlinks" not in s[4] for s in spec):
        res.count("per_root_symlinks_option")
    if trace:
        # O3: depth computed by the implementation == model level of the directory's children
        seen_dirs = {}
        for ev in r.events:
            if ev["ev"] == "dir":
                canon = ev["canon"]
                seen_dirs[canon] = seen_dirs.get(canon, 0) + 1
                # model level of children of this directory
                for (ri, _s, _a, _b, _m) in spec:
                    rootabs = os.path.realpath(os.path.join(home, roots[ri][2:]) if roots[ri].startswith("~/") else os.path.join(w, roots[ri]))
                    if canon == rootabs or canon.startswith(rootabs + "/"):
                        lvl = 1 if canon == rootabs else canon[len(rootabs) + 1:].count("/") + 2
                        if int(ev["depth"]) != lvl:
                            res.viol("hook: implementation computed depth %s for %s, model level %d" % (
                                ev["depth"], canon, lvl), ctxs)
                        break
        dup = [k for k, v in seen_dirs.items() if v > 1]
        if dup:
            res.viol("hook: directory entered more than once: %s" % dup[:3], ctxs)
        nrow = sum(1 for ev in r.events if ev["ev"] == "row")
        if nrow != len(rows):
            res.viol("hook: %d accepted-row events but %d rows on stdout" % (nrow, len(rows)), ctxs)
        res.count("hook_dir_events", sum(seen_dirs.values()))
        res.count("hook_row_events", nrow)
    if rows:
        res.nt("%s|%s" % ("+".join(tree.shape_key(snaps[s[0]]) for s in spec),
                          ";".join("%s,%s,%s,%s" % s[1:] for s in spec)))
    res.cover("modes", ",".join(sorted(set(" ".join(m for m in s[4].split() if m in ("bfs", "dfs")) or "default" for s in spec))))
    res.cover("spellings", spec[0][1])
    res.cover("nroots", len(spec))
    for s in spec:
        res.cover("windows", "%s-%s" % (s[2], s[3]))
    kinds = set(e.kind for (ri, *_r) in spec for e in snaps[ri])
    for k in kinds:
        res.cover("entry_kinds", k)
    res.sample({"query": query, "rows": rows[:8], "n_rows": len(rows)}, cap=2)


def run_job(job):
    res = JobResult()
    rng = random.Random(job["seed"])
    sc = runner.new_scratch("c01")
    try:
        w = runner.work_dir(sc)
        home = runner.make_home(sc)
        if job["kind"] == "random":
            nroots = rng.choice([1, 1, 2, 3])
            roots = rng.sample(ROOT_NAMES, nroots)
            snaps = []
            maxd = 1
            for name in roots:
                os.mkdir(os.path.join(w, name))
                nodes = tree.gen_tree(rng, max_entries=job.get("max_entries", 30), max_depth=rng.randint(1, 7),
                                      kinds=("file", "dir", "symlink", "fifo", "socket", "chr", "blk"))
                full = [n["path"] for n in nodes if n["kind"] == "dir" and any(m["path"].startswith(n["path"] + "/") for m in nodes)]
                if full and rng.random() < 0.5:     # a link to a populated directory: listed, never entered
                    nodes.append({"path": "zl%d" % rng.randrange(3), "kind": "symlink", "target": rng.choice(full)})
                refused = tree.materialise(os.path.join(w, name), nodes)
                for rf in refused:
                    res.inc("refused: %s" % (rf,))
                # hard links: several directory entries for one inode are several entries
                fl = [n for n in nodes if n["kind"] == "file"]
                dl = [""] + [n["path"] for n in nodes if n["kind"] == "dir"]
                for k in range(rng.choice([0, 1, 2]) if fl else 0):
                    try:
                        os.link(os.path.join(w, name, rng.choice(fl)["path"]), os.path.join(w, name, rng.choice(dl), "hardlink%d" % k))
                        res.count("hard_links_in_trees")
                    except OSError:
                        pass
                snap = tree.snapshot(os.path.join(w, name))
                snaps.append(snap)
                maxd = max([maxd] + [e.level for e in snap])
            # a link-free root that carries the `symlinks` option: its own rows do not change, and the option must not
            # reach the other roots of the same query (they keep listing their links without descending)
            os.mkdir(os.path.join(w, "zp"))
            tree.materialise(os.path.join(w, "zp"), tree.gen_tree(rng, max_entries=8, max_depth=2, kinds=("file", "dir")))
            roots = roots + ["zp"]
            snaps.append(tree.snapshot(os.path.join(w, "zp")))
            os.mkdir(os.path.join(home, "hr"))
            tree.materialise(os.path.join(home, "hr"), tree.gen_tree(rng, max_entries=8, max_depth=3, kinds=("file", "dir", "symlink")))
            roots = roots + ["~/hr"]
            snaps.append(tree.snapshot(os.path.join(home, "hr")))
            for qi in range(job["queries"]):
                k = rng.randint(1, nroots)
                idxs = rng.sample(range(nroots), k)
                spec = []
                for j, ri in enumerate(idxs):
                    if k == 1 and rng.random() < 0.3:
                        sp = rng.choice([".", "implicit"])
                    else:
                        sp = rng.choice(["rel", "dotrel", "abs", "relslash", "absslash"])
                    a = rng.choice([None, None, 0] + list(range(0, maxd + 3)))
                    b = rng.choice([None, None, 0] + list(range(0, maxd + 3)))
                    mode = rng.choice(["", "bfs", "dfs"])
                    if rng.random() < 0.15:
                        # `archives` adds rows for the members of zip files; these trees hold none (only files and directories
                        # that are called *.zip, *.jar ...), so the rows stay exactly the same
                        mode = (mode + " " + rng.choice(["archives", "arc"])).strip()
                        res.count("archives_option_on_trees_without_archives")
                    if sp == "implicit":
                        a = b = None
                        mode = ""
                    spec.append((ri, sp, a, b, mode))
                if rng.random() < 0.15 and all(x[1] not in (".", "implicit") for x in spec):
                    spec.insert(rng.randint(0, len(spec)), (len(roots) - 1, rng.choice(["tilde", "tilde", "abs"]), rng.choice([None, None, 1, 2]),
                                                            rng.choice([None, None, 1, 3]), rng.choice(["", "dfs"])))
                    res.count("tilde_roots")
                if rng.random() < 0.3 and all(x[1] not in (".", "implicit") for x in spec):
                    pm = rng.choice(["symlinks", "symlinks", "dfs symlinks", "symlinks bfs", "symlinks dfs"])
                    spec.insert(rng.choice([0, 0, rng.randint(0, len(spec))]),
                                (len(roots) - 2, rng.choice(["rel", "abs", "dotrel"]), rng.choice([None, None, 1, 2]), rng.choice([None, None, 1, 3]), pm))
                # which entries are listed does not depend on which of their columns are asked for
                extra = rng.choice(["", "", "", ", size", ", is_dir", ", modified, mode", ", name, hardlinks", ", is_symlink, uid"])
                if extra:
                    res.count("queries_with_metadata_columns")
                run_case(res, w, home, roots, snaps, spec, trace=(qi % 4 == 0), extra=extra)
        elif job["kind"] == "nonutf8":
            # names that are not valid UTF-8 (legal on Linux): rows are printed lossily, so entries can only be counted:
            # the multiset of lossy spellings must equal the multiset of the entries' lossy spellings
            base = os.path.join(w, "nu").encode()
            os.mkdir(base)
            made = []
            dirs = [b""]
            # two sibling directories whose names differ only in invalid bytes (identical when printed lossily), both populated
            pa, pb = rng.choice([(b"d\xfe", b"d\xff"), (b"x\x80", b"x\x81"), (b"\xe9t\xe9", b"\xe8t\xe8")])
            for pd in (pa, pb):
                os.mkdir(os.path.join(base, pd))
                os.mkdir(os.path.join(base, pd, b"inner"))
                for leaf in (pd + b"/one", pd + b"/inner/two"):
                    with open(os.path.join(base, leaf), "wb"):
                        pass
                made.extend([pd, pd + b"/inner", pd + b"/one", pd + b"/inner/two"])
                dirs.append(pd)
            for i in range(rng.randint(4, 14)):
                parent = rng.choice(dirs)
                nm = rng.choice([b"d\xfe", b"d\xff", b"f\xe9", b"\xff\xfe", b"ok", b"\xc3\x28", b"a\x80b", b"z\xf0\x9f", b"plain", b"\xe2\x82"]) + (b"%d" % i if rng.random() < 0.3 else b"")
                p = nm if not parent else parent + b"/" + nm
                if p in made:
                    continue
                made.append(p)
                if rng.random() < 0.5 and p.count(b"/") < 3:
                    os.mkdir(os.path.join(base, p))
                    dirs.append(p)
                else:
                    with open(os.path.join(base, p), "wb"):
                        pass
            for a, b, mode in ((None, None, ""), (None, None, "dfs"), (2, None, ""), (None, 2, "dfs"), (1, 1, "bfs")):
                query = "path from nu%s%s%s into list" % ("" if a is None else " mindepth %d" % a, "" if b is None else " maxdepth %d" % b, " " + mode if mode else "")
                r = runner.run([query], cwd=w, home=home)
                res.ev()
                ctx = {"query": query, "entries": [repr(m) for m in made], "result": r.brief()}
                if r.verdict != "ok" or r.rc != 0 or r.err:
                    if r.verdict in ("ok", "busy"):
                        res.viol("status %s / stderr %r on a readable tree with non-UTF-8 names" % (r.rc, r.err[:200]), ctx)
                    continue
                want = sorted((b"nu/" + m).decode("utf-8", "replace") for m in made if in_window(m.count(b"/") + 1, a or 0, b or 0))
                got = sorted(r.out.decode("utf-8", "replace").split("\0")[:-1]) if r.out else []
                if got != want:
                    res.viol("non-UTF-8 names: %d rows for %d in-window entries (lossy spellings differ: %s)" % (
                        len(got), len(want), sorted(set(got) ^ set(want))[:3]), ctx)
                    continue
                res.cover("entry_kinds", "non-utf8-name")
                if want:
                    res.nt("nonutf8|%s|%s|%s|%d" % (a, b, mode, len(want)))
        elif job["kind"] == "rxroots":
            # `regexp` root option (synonym rx): every path component that contains * [ or ? is a regular expression and stands
            # for the directories (not links) whose whole name matches it; each of them is searched like a root of its own
            tops = ["r1", "r2", "r10", "rx", "other", "R3", "r1x", ".r5", "s-1"]
            snaps = {}
            for name in tops:
                os.mkdir(os.path.join(w, name))
                nodes = tree.gen_tree(rng, max_entries=10, max_depth=3, kinds=("file", "dir", "symlink"))
                nodes += [{"path": "sub1", "kind": "dir"}, {"path": "sub1/in1", "kind": "file", "size": 1}] if rng.random() < 0.6 else []
                nodes += [{"path": "sub22", "kind": "dir"}, {"path": "sub22/in2", "kind": "file", "size": 1}] if rng.random() < 0.5 else []
                tree.materialise(os.path.join(w, name), nodes)
                snaps[name] = tree.snapshot(os.path.join(w, name))
            os.symlink("r1", os.path.join(w, "r7"))          # a link to a directory is not a directory
            open(os.path.join(w, "r8"), "w").close()         # nor is a file
            import re as _re
            for qi in range(job["queries"]):
                pat = rng.choice(["r[0-9]+", "r[0-9]", ".*", "r.*", "[a-z]+[0-9]", "r1?", "r1.?", "[rR][0-9]", "r[0-9]+/sub.*", "r[12]/sub[0-9]", ".*/sub[0-9]",
                                  "r[0-9]*", "[^r].*", "r?x", "other/s.b[0-9]+"])
                a = rng.choice([None, None, 1, 2, 3])
                bmax = rng.choice([None, None, 1, 2, 3])
                mode = rng.choice(["", "bfs", "dfs"])
                kw = rng.choice(["regexp", "rx", "RX", "Regexp"])
                absolute = rng.random() < 0.3
                query = "path from '%s' %s%s%s%s into list" % ((w + "/" if absolute else "") + pat, kw, "" if a is None else " mindepth %d" % a,
                                                              "" if bmax is None else " maxdepth %d" % bmax, " " + mode if mode else "")
                r = runner.run([query], cwd=w, home=home)
                res.ev()
                ctx = {"query": query, "top_level": sorted(os.listdir(w)), "result": r.brief()}
                if r.verdict != "ok" or r.rc != 0 or r.err:
                    if r.verdict in ("ok", "busy"):
                        res.viol("regexp roots: status %s / stderr %r on a readable tree" % (r.rc, r.err[:200]), ctx)
                    continue
                parts = pat.split("/")
                starts = [""]
                for part in parts:
                    nxt = []
                    for st in starts:
                        base = os.path.join(w, st)
                        if any(c in part for c in "*[?"):
                            for n in sorted(os.listdir(base)):
                                full = os.path.join(base, n)
                                if os.path.isdir(full) and not os.path.islink(full) and _re.fullmatch(part, n):
                                    nxt.append(os.path.join(st, n))
                        elif os.path.isdir(os.path.join(base, part)):
                            nxt.append(os.path.join(st, part))
                    starts = nxt
                want = collections.Counter()
                for st in starts:
                    top = st.split("/")[0]
                    inner = st[len(top) + 1:] if "/" in st else ""
                    for e in snaps[top]:
                        if inner and not e.rel.startswith(inner + "/"):
                            continue
                        lvl = e.level - (inner.count("/") + 1 if inner else 0)
                        if in_window(lvl, a or 0, bmax or 0):
                            want[os.path.join(w, top, e.rel)] += 1
                got = collections.Counter(os.path.normpath(os.path.join(w, x)) for x in r.rows())
                if got != want:
                    ctx["roots_expected"] = starts
                    ctx["missing"] = sorted((want - got).keys())[:5]
                    ctx["extra"] = sorted((got - want).keys())[:5]
                    res.viol("regexp roots `%s`: rows differ from the in-window entries of the %d matching directories (%d missing, %d extra)" % (
                        pat, len(starts), sum((want - got).values()), sum((got - want).values())), ctx)
                    continue
                res.cover("regexp_root_patterns", pat)
                if want:
                    res.nt("rxroots|%s|%s|%s|%s|%d" % (pat, a, bmax, mode, sum(want.values())))
        elif job["kind"] == "large":
            name = "big"
            os.mkdir(os.path.join(w, name))
            nodes = []
            for i in range(job["files"]):
                nodes.append({"path": "f%05d" % i, "kind": "file", "size": 0})
            for d in range(job["dirs"]):
                nodes.append({"path": "d%03d" % d, "kind": "dir"})
                for k in range(rng.randint(0, 6)):
                    nodes.append({"path": "d%03d/g%d" % (d, k), "kind": rng.choice(["file", "file", "dir"])})
                if d % 7 == 0:
                    nodes.append({"path": "d%03d/deep" % d, "kind": "dir"})
                    nodes.append({"path": "d%03d/deep/er" % d, "kind": "dir"})
                    nodes.append({"path": "d%03d/deep/er/x" % d, "kind": "file", "size": 1})
            tree.materialise(os.path.join(w, name), nodes)
            snap = tree.snapshot(os.path.join(w, name))
            for a, b, mode in ((None, None, ""), (None, None, "dfs"), (2, None, "bfs"), (None, 2, "dfs"), (2, 3, ""), (1, 1, "dfs"), (3, 0, "bfs")):
                run_case(res, w, home, [name], [snap], [(0, rng.choice(["rel", "abs", "dotrel"]), a, b, mode)], trace=False)
            res.count("large_tree_entries", len(snap))
            # a chain of 45 nested directories (short names: PATH_MAX is not the point)
            os.mkdir(os.path.join(w, "deep"))
            chain = []
            p = ""
            for i in range(45):
                p = ("c%d" % (i % 10)) if not p else p + "/c%d" % (i % 10)
                chain.append({"path": p, "kind": "dir"})
                if i % 9 == 0:
                    chain.append({"path": p + "/leaf", "kind": "file", "size": 1})
            tree.materialise(os.path.join(w, "deep"), chain)
            dsnap = tree.snapshot(os.path.join(w, "deep"))
            for a, b, mode in ((None, None, "bfs"), (None, None, "dfs"), (40, None, "dfs"), (None, 44, "bfs"), (10, 12, "dfs"), (46, 0, "bfs"), (45, 47, "")):
                run_case(res, w, home, ["deep"], [dsnap], [(0, "rel", a, b, mode)], trace=False)
        else:  # exhaustive shapes
            for si, parents in enumerate(job["shapes"]):
                name = "s%d" % si
                os.mkdir(os.path.join(w, name))
                tree.materialise(os.path.join(w, name), shape_recipe(parents))
                snap = tree.snapshot(os.path.join(w, name))
                for a in range(0, 5):
                    for b in range(0, 5):
                        for mode in ("bfs", "dfs"):
                            run_case(res, w, home, [name], [snap], [(0, "rel", a, b, mode)], trace=False)
                res.count("exhaustive_shapes_done")
    finally:
        runner.rm_scratch(sc)
    return res


def main(chk):
    quick = chk.tier == "quick"
    jobs = []
    n_random = 960 if quick else 3600
    for i in range(n_random):
        jobs.append({"id": "rnd%d" % i, "kind": "random", "seed": job_seed(chk.seed, "C01", i),
                     "queries": 24 if quick else 30, "max_entries": 30 if quick else 60})
    for i in range(2 if quick else 12):
        jobs.append({"id": "large%d" % i, "kind": "large", "seed": job_seed(chk.seed, "C01", "L%d" % i), "files": 3000 if i % 2 == 0 else 700,
                     "dirs": 40 if i % 2 == 0 else 400})
    for i in range(32 if quick else 160):
        jobs.append({"id": "nonutf8-%d" % i, "kind": "nonutf8", "seed": job_seed(chk.seed, "C01", "N%d" % i)})
    for i in range(24 if quick else 200):
        jobs.append({"id": "rxroots-%d" % i, "kind": "rxroots", "seed": job_seed(chk.seed, "C01", "R%d" % i), "queries": 12})
    shapes = enum_shapes(5 if quick else 8)
    per = 4
    for i in range(0, len(shapes), per):
        jobs.append({"id": "shape%d" % i, "kind": "exhaustive", "seed": 0,
                     "shapes": [list(s) for s in shapes[i:i + per]]})
    chk.run_jobs(jobs, budget_s=240 if quick else 3000)
    return chk.finish(
        rule="random trees (1-3 disjoint roots, every creatable entry kind) x root spellings x windows "
             "0..depth+2 x {default,bfs,dfs}; plus every directory-tree shape with <= %d directories x windows "
             "0..4 x {bfs,dfs}; 30 %% of the random queries also search a link-free root carrying `symlinks` (the option must stay with that root); `regexp` / `rx` roots: 15 patterns over one or two path components, relative and absolute, expanded by the harness with re.fullmatch over real directories. Non-trivial = query returned >= 1 row; distinct by (tree shape hash, window/mode/spelling)."
             % (5 if quick else 8),
        assumptions=["deciding binary built without LTO (otherwise the release profile)",
                     "ground truth = os.lstat walk of the tree after it was built",
                     "rows are mapped to entries by normalising the printed path against the cwd; path spelling is not judged"],
        require={"modes": 3, "spellings": 5, "entry_kinds": 8, "per_root_symlinks_option": 50, "regexp_root_patterns": 10},
        exhaustive={"dir_tree_shapes": len(shapes), "windows": "0..4 x 0..4", "modes": ["bfs", "dfs"],
                    "completed_shapes": chk.counts.get("exhaustive_shapes_done", 0)},
    )
