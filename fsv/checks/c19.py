"""C19 - archive search lists each zip member exactly once and changes nothing else."""
import collections
import datetime
import io
import os
import random
import stat
import zipfile

from .. import model, ordering, runner, tree
from ..core import JobResult, job_seed

MEMBER_NAMES = ["a.txt", "b", "dir/", "dir/c.rs", "dir/sub/", "dir/sub/d e.txt", "ünï.md", "日本.txt", "x y", ".hidden", "UP.TXT",
                "deep/er/est/f", "z.zip", "dash-name", "q.tar.gz"]
DATES = [(2020, 1, 31, 23, 59, 58), (2020, 2, 29, 0, 0, 0), (2021, 12, 31, 12, 30, 10), (2019, 6, 30, 1, 2, 4), (1999, 12, 31, 23, 0, 0),
         (2022, 3, 1, 0, 0, 2), (1980, 1, 1, 0, 0, 0), (2023, 2, 28, 6, 6, 6), (2021, 4, 30, 9, 9, 8)]


def make_zip(rng, path, nmembers=None):
    members = []
    n = rng.randint(0, 9) if nmembers is None else nmembers
    names = rng.sample(MEMBER_NAMES, min(n, len(MEMBER_NAMES)))
    # one archive in four does not begin with its first member: a launcher script or a loader stands in front (executable jars and
    # wars, self-extracting archives); an archive is found from its end, and such files are read by every zip tool
    stub = rng.choice([b"", b"", b"", b"#!/bin/sh\nexec java -jar \"$0\" \"$@\"\n", b"MZ" + b"\x90" * 510])
    glued = bool(stub) and rng.random() < 0.5      # `cat stub plain.zip`: the offsets inside are those of plain.zip
    fh = open(path, "wb")
    if not glued:
        fh.write(stub)
    with fh, zipfile.ZipFile(fh, "w") as z:
        for nm in names:
            isdir = nm.endswith("/")
            size = 0 if isdir else rng.choice([0, 1, 5, 9, 10, 100, 999, 1000, 5000])
            zi = zipfile.ZipInfo(nm, rng.choice(DATES))
            perm = rng.choice([0o644, 0o755, 0o600, 0o4755, 0o777, 0o000, 0o1777])
            fmt = stat.S_IFDIR if isdir else rng.choice([stat.S_IFREG, stat.S_IFREG, stat.S_IFREG, stat.S_IFLNK])
            zi.external_attr = (fmt | perm) << 16
            zi.create_system = 3
            zi.compress_type = rng.choice([zipfile.ZIP_STORED, zipfile.ZIP_DEFLATED])
            z.writestr(zi, b"m" * size)
            members.append({"name": nm, "size": size, "mode": fmt | perm, "date": zi.date_time, "is_dir": isdir})
    if glued:
        with open(path, "rb") as f:
            plain = f.read()
        with open(path, "wb") as f:
            f.write(stub + plain)
    return members


def build(rng, root):
    ordering.order_tree(rng, root, n_files=rng.randint(3, 12))
    archives = {}
    for rel in rng.sample(["one.zip", "d1/two.jar", "d2/three.war", "d1/e/four.ear", "UP.ZIP", "Mixed.Jar", "many/s1/five.zip"], rng.randint(1, 5)):
        p = os.path.join(root, rel)
        os.makedirs(os.path.dirname(p), exist_ok=True)
        archives[rel] = make_zip(rng, p)
    # the same archive under a second name (hard link: one inode, two entries) - both are searched
    if rng.random() < 0.4:
        src = rng.choice(sorted(archives))
        alias = rng.choice(["alias.zip", "d2/alias.jar", "d1/e/alias.war"])
        os.makedirs(os.path.dirname(os.path.join(root, alias)), exist_ok=True)
        os.link(os.path.join(root, src), os.path.join(root, alias))
        archives[alias] = archives[src]
    # files that are no archives by name (wrong extension) but are zips, and names that look like archives but are not zips
    p = os.path.join(root, "notzip.txt")
    make_zip(rng, p, 3)
    with open(os.path.join(root, "fake.zip"), "wb") as f:
        f.write(b"this is not a zip archive")
    open(os.path.join(root, "empty.zip"), "wb").close()
    os.makedirs(os.path.join(root, "dir.zip"), exist_ok=True)
    # a populated directory that is called like an archive: it is a directory, and is searched like one
    if rng.random() < 0.6:
        os.makedirs(os.path.join(root, "d2", "libs.jar", "inner"), exist_ok=True)
        for rel in ("dir.zip/in1.txt", "d2/libs.jar/in2", "d2/libs.jar/inner/in3.rs"):
            with open(os.path.join(root, rel), "w") as f:
                f.write("x" * rng.choice([0, 3, 700]))
    return archives


def member_rows(frm_root, archives, level_of, window):
    """Expected member rows keyed by printed path."""
    out = {}
    for rel, members in archives.items():
        if not window(level_of(rel)):
            continue
        for m in members:
            out["[%s/%s] %s" % (frm_root, rel, m["name"])] = m
    return out


def run_job(job):
    res = JobResult()
    rng = random.Random(job["seed"])
    sc = runner.new_scratch("c19")
    try:
        w = runner.work_dir(sc)
        home = runner.make_home(sc)
        if job["kind"] == "random":
            job_random(res, rng, w, home, job)
        elif job["kind"] == "corrupt":
            job_corrupt(res, rng, w, home, job)
        elif job["kind"] == "clock":
            job_clock(res, rng, w, home, job)
        elif job["kind"] == "readfault":
            job_readfault(res, rng, w, home, job)
        elif job["kind"] == "config":
            job_config(res, rng, w, home, job)
        elif job["kind"] == "membercols":
            job_membercols(res, rng, w, home, job)
        elif job["kind"] == "nonutf8":
            job_nonutf8(res, rng, w, home, job)
    finally:
        runner.rm_scratch(sc)
    return res


def q_run(res, w, home, q, **kw):
    r = runner.run([q], cwd=w, home=home, **kw)
    res.ev()
    return r


def job_random(res, rng, w, home, job):
    root = os.path.join(w, "t")
    os.mkdir(root)
    archives = build(rng, root)
    for qi in range(job["queries"]):
        a = rng.choice([0, 0, 1, 2])
        bmax = rng.choice([0, 0, 1, 2, 3])
        opts = ("" if not a else " mindepth %d" % a) + ("" if not bmax else " maxdepth %d" % bmax) + rng.choice(["", " dfs", " bfs"])

        def window(level, a=a, bmax=bmax):
            return (a == 0 or level >= a) and (bmax == 0 or level <= bmax)
        where = rng.choice([None, None, "size > 5", "size between 1 and 1000", "name like '%a%'", "is_dir", "not is_dir", "ext = 'txt'"])
        wtxt = (" where " + where) if where else ""
        cols = ["path", "name", "size", "is_dir", "mode", "modified"]
        kw = rng.choice(["archives", "arc", "ARCHIVES"])
        tz = rng.choice(["UTC", "Europe/Berlin", "Asia/Kolkata"])
        q1 = "%s from t%s %s%s into list" % (", ".join(cols), opts, kw, wtxt)
        q0 = "%s from t%s%s into list" % (", ".join(cols), opts, wtxt)
        r1 = q_run(res, w, home, q1, tz=tz, trace=True)
        r0 = q_run(res, w, home, q0, tz=tz)
        ctx = {"query": q1, "without": q0, "archives": {k: [m["name"] for m in v] for k, v in archives.items()}, "result": r1.brief()}
        bad = False
        for r, q in ((r1, q1), (r0, q0)):
            if r.verdict != "ok":
                res.viol("`%s` %s" % (q, r.verdict), ctx) if r.verdict in ("busy", "blocked") else res.inc("watchdog")
                bad = True
            elif r.rc != 0 or r.err or r.panicked:
                res.viol("`%s`: status %s stderr %r on readable archives" % (q, r.rc, r.err[:200]), ctx)
                bad = True
        if bad:
            continue
        rows1 = r1.rows(len(cols))
        rows0 = r0.rows(len(cols))
        ordinary1 = [x for x in rows1 if not x[0].startswith("[")]
        members1 = [x for x in rows1 if x[0].startswith("[")]
        if collections.Counter(ordinary1) != collections.Counter(rows0):
            ctx["only_with"] = sorted(set(ordinary1) - set(rows0))[:4]
            ctx["only_without"] = sorted(set(rows0) - set(ordinary1))[:4]
            res.viol("`%s`: rows of ordinary entries differ from the same query without `archives`" % q1, ctx)
            continue
        exp = member_rows("t", archives, lambda rel: rel.count("/") + 1, window)
        # WHERE is applied to members with the member's own attributes
        def member_passes(m):
            nm = m["name"]
            shown = "[%s] %s" % ("x", nm)
            if where is None:
                return True
            if where == "size > 5":
                return m["size"] > 5
            if where == "size between 1 and 1000":
                return 1 <= m["size"] <= 1000
            if where == "is_dir":
                return m["is_dir"]
            if where == "not is_dir":
                return not m["is_dir"]
            return None     # name/ext filters: the member's `name` value includes the archive prefix - not judged
        got = collections.Counter(x[0] for x in members1)
        dup = [k for k, c in got.items() if c > 1]
        if dup:
            res.viol("`%s`: member listed more than once: %s" % (q1, dup[:3]), ctx)
            continue
        judged_where = True
        for key, m in exp.items():
            p = member_passes(m)
            if p is None:
                judged_where = False
                continue
            if p and key not in got:
                res.viol("`%s`: member %r (size %d) is missing" % (q1, key, m["size"]), ctx)
                bad = True
                break
            if not p and key in got:
                res.viol("`%s`: member %r (size %d, is_dir %s) violates the WHERE filter" % (q1, key, m["size"], m["is_dir"]), ctx)
                bad = True
                break
        if bad:
            continue
        stray = [k for k in got if k not in exp]
        if stray:
            res.viol("`%s`: rows for members that do not exist or lie outside the window: %s" % (q1, stray[:3]), ctx)
            continue
        for row in members1:
            m = exp[row[0]]
            want_mod = "%04d-%02d-%02d %02d:%02d:%02d" % tuple(m["date"])
            want = {"size": str(m["size"]), "is_dir": "true" if m["is_dir"] else "false", "mode": stat.filemode(m["mode"]), "modified": want_mod}
            gotc = dict(zip(cols, row))
            for c, v in want.items():
                if gotc[c] != v:
                    res.viol("member %r: %s printed %r, the central directory says %r" % (row[0], c, gotc[c], v), ctx)
                    bad = True
                    break
            if bad:
                break
        if bad:
            continue
        # hook: every member checked exactly once
        chk = collections.Counter((ev["path"], ev["member"]) for ev in r1.events if ev["ev"] == "chk" and ev["is_member"] == "true")
        if any(c > 1 for c in chk.values()):
            res.viol("hook chk: a member was evaluated twice: %s" % [k for k, c in chk.items() if c > 1][:2], ctx)
            continue
        res.count("hook_member_chk_events", sum(chk.values()))
        res.count("member_rows_checked", len(members1))
        res.cover("where", str(where))
        res.cover("window", "%d-%d" % (a, bmax))
        if members1:
            res.nt("%s|%s|%s|%d" % (opts, where, sorted(archives), len(members1)))
        res.sample({"query": q1, "member_rows": [list(x) for x in members1[:3]], "ordinary_rows": len(ordinary1)}, cap=2)
        # the option belongs to one root: members of archives under the other root must not appear
        if qi % 3 == 0 and os.path.isdir(os.path.join(root, "d1")) and os.path.isdir(os.path.join(root, "d2")):
            qr = "path from t/d1 %s, t/d2 into list" % kw
            rr = q_run(res, w, home, qr)
            if rr.verdict == "ok" and rr.rc == 0 and not rr.err:
                mem = [x for x in rr.rows() if x.startswith("[")]
                want_m = sorted("[t/%s] %s" % (rel, m["name"]) for rel, ms in archives.items() if rel.startswith("d1/") for m in ms)
                if sorted(mem) != want_m:
                    res.viol("`%s`: member rows %s, expected only the members of archives below the root that carries the option (%d)" % (
                        qr, sorted(set(mem) ^ set(want_m))[:3], len(want_m)), {"query": qr})
                else:
                    res.count("per_root_option_checked")
            elif rr.verdict == "ok":
                res.viol("`%s`: status %s stderr %r" % (qr, rr.rc, rr.err[:120]), {"query": qr})
        # LIMIT counts matching rows, members included (metamorphic against the unlimited query)
        M = len(rows1)
        unl = collections.Counter(x[0] for x in rows1)
        for N in sorted(set([1, 2, max(1, M // 2), max(1, M - 1), M, M + 1])):
            ql = "path from t%s %s%s limit %d into list" % (opts, kw, wtxt, N)
            rl = q_run(res, w, home, ql, tz=tz)
            if rl.verdict != "ok" or rl.rc != 0 or rl.err:
                if rl.verdict == "ok":
                    res.viol("`%s`: status %s stderr %r" % (ql, rl.rc, rl.err[:120]), {"query": ql})
                continue
            got_l = rl.rows()
            if len(got_l) != min(N, M) or (collections.Counter(got_l) - unl):
                res.viol("`%s`: %d rows, expected min(N, M) = %d of the %d rows the unlimited query returns (members and files together)" % (
                    ql, len(got_l), min(N, M), M), {"query": ql, "unlimited": q1, "rows": got_l[:10]})
                break
            res.count("limits_with_members_checked")
        # ORDER BY across ordinary entries and members
        if qi % 2 == 0:
            key = rng.choice(["size", "size desc"])
            qo = "path, size from t %s%s order by %s into list" % (kw, wtxt, key)
            ro = q_run(res, w, home, qo)
            if ro.verdict == "ok" and ro.rc == 0 and not ro.err:
                seq = [int(x[1]) for x in ro.rows(2)]
                if seq != sorted(seq, reverse="desc" in key):
                    res.viol("`%s`: members and files are not sorted together: %s" % (qo, seq[:12]), {"query": qo})
                else:
                    res.count("ordered_with_members_checked")
            elif ro.verdict == "ok":
                res.viol("`%s`: status %s stderr %r" % (qo, ro.rc, ro.err[:120]), {"query": qo})


LEVEL = "fault_enumeration"


def small_archive():
    buf = io.BytesIO()
    with zipfile.ZipFile(buf, "w") as z:
        for nm, data in (("a.txt", b"hello"), ("d/", b""), ("d/b.bin", b"\x00\x01\x02" * 5)):
            zi = zipfile.ZipInfo(nm, (2020, 5, 17, 10, 11, 12))
            zi.external_attr = ((stat.S_IFDIR | 0o755) if nm.endswith("/") else (stat.S_IFREG | 0o644)) << 16
            zi.create_system = 3
            z.writestr(zi, data)
    return buf.getvalue()


def job_corrupt(res, rng, w, home, job):
    data = small_archive()
    d = os.path.join(w, "c")
    os.mkdir(d)
    cd_start = data.rfind(b"PK\x01\x02")
    cd_first = data.find(b"PK\x01\x02")
    variants = {}
    if job["what"] == "truncate":
        for n in range(job["lo"], min(job["hi"], len(data))):
            variants["t%04d.zip" % n] = data[:n]
    else:
        for i in range(max(job["lo"], cd_first), min(job["hi"], len(data))):
            for pat in (0xFF, 0x01, 0x80):
                variants["f%04d_%02x.zip" % (i, pat)] = data[:i] + bytes([data[i] ^ pat]) + data[i + 1:]
    if not variants:
        return
    for nm, blob in variants.items():
        with open(os.path.join(d, nm), "wb") as f:
            f.write(blob)
    with open(os.path.join(d, "good.zip"), "wb") as f:
        f.write(data)
    open(os.path.join(d, "plain.txt"), "w").close()
    q1 = "path, size from c archives into list"
    q0 = "path, size from c into list"
    r1 = q_run(res, w, home, q1)
    r0 = q_run(res, w, home, q0)
    ctx = {"query": q1, "variants": len(variants), "result": {"rc": r1.rc, "sig": r1.sig, "stderr": r1.err[:500].decode("utf-8", "replace")}}
    if r1.verdict != "ok":
        res.viol("corrupt corpus: `%s` %s" % (q1, r1.verdict), ctx) if r1.verdict in ("busy", "blocked") else res.inc("watchdog")
        return
    if r1.panicked or r1.sig or r1.rc not in (0, 1):
        # bisect to one file for the replay
        culprit = None
        for nm in sorted(variants):
            rr = q_run(res, w, home, "path from c archives where name = '%s' or name like '[%s]%%' into list" % (nm, nm))
        res.viol("corrupt archive aborts the search: status %s signal %s: %s" % (r1.rc, r1.sig, r1.err[:200].decode("utf-8", "replace")), ctx)
        return
    ordinary = [x for x in r1.rows(2) if not x[0].startswith("[")]
    if collections.Counter(ordinary) != collections.Counter(r0.rows(2)):
        res.viol("corrupt corpus: rows of ordinary entries were lost or changed (%d vs %d)" % (len(ordinary), len(r0.rows(2))), ctx)
        return
    good = [x for x in r1.rows(2) if x[0].startswith("[c/good.zip] ")]
    if sorted(good) != sorted([("[c/good.zip] a.txt", "5"), ("[c/good.zip] d/", "0"), ("[c/good.zip] d/b.bin", "15")]):
        res.viol("the intact archive next to the corrupt ones is not listed correctly: %s" % good, ctx)
        return
    res.count("corrupt_variants_searched", len(variants))
    res.cover("corruption", job["what"])
    for nm in variants:
        res.nt("corrupt|" + nm)
    res.sample({"kind": "corrupt", "what": job["what"], "range": [job["lo"], job["hi"]], "variants": len(variants), "status": r1.rc}, cap=2)


def job_clock(res, rng, w, home, job):
    """Member timestamps must not depend on today's date (controlled clock at month ends / leap day)."""
    root = os.path.join(w, "k")
    os.mkdir(root)
    with zipfile.ZipFile(os.path.join(root, "k.zip"), "w") as z:
        for i, d in enumerate(DATES):
            z.writestr(zipfile.ZipInfo("m%d" % i, d), b"x")
    for now in job["nows"]:
        ts = int(datetime.datetime(*now, tzinfo=datetime.timezone.utc).timestamp())
        q = "name, modified from k archives where size = 1 into list"
        r = q_run(res, w, home, q, fake_epoch=ts)
        ctx = {"query": q, "now": list(now), "result": r.brief()}
        if r.verdict != "ok":
            res.viol("`%s` %s under the clock %s" % (q, r.verdict, now), ctx) if r.verdict in ("busy", "blocked") else res.inc("watchdog")
            continue
        if r.panicked or r.rc != 0 or r.err:
            res.viol("`archives` with today's date = %04d-%02d-%02d: status %s: %s" % (now[0], now[1], now[2], r.rc, r.err[:200].decode("utf-8", "replace").strip()), ctx)
            continue
        got = dict(x for x in r.rows(2) if x[0].startswith("["))
        bad = False
        for i, d in enumerate(DATES):
            want = "%04d-%02d-%02d %02d:%02d:%02d" % d
            if got.get("[k.zip] m%d" % i) != want:
                res.viol("member stored as %s printed %r when today is %04d-%02d-%02d" % (want, got.get("[k.zip] m%d" % i), now[0], now[1], now[2]), ctx)
                bad = True
                break
        if not bad:
            res.cover("clock_days", "%02d-%02d" % (now[1], now[2]))
            res.nt("clock|%s" % (now,))


def job_readfault(res, rng, w, home, job):
    """Read errors injected (strace) on the archive file only: the archive is skipped, nothing else changes."""
    root = os.path.join(w, "r")
    os.mkdir(root)
    make_zip(rng, os.path.join(root, "bad.zip"), 5)
    good = make_zip(rng, os.path.join(root, "good.zip"), 4)
    open(os.path.join(root, "plain"), "w").close()
    q = "path from r archives into list"
    r0 = q_run(res, w, home, "path from r into list")
    base = q_run(res, w, home, q)
    for sysc, when in job["faults"]:
        r = q_run(res, w, home, q, strace=["-e", "trace=%s" % sysc, "-e", "inject=%s:error=EIO:when=%s" % (sysc, when),
                                           "-P", os.path.join(root, "bad.zip")])
        ctx = {"query": q, "fault": "%s EIO when=%s on bad.zip" % (sysc, when), "result": r.brief()}
        if r.verdict != "ok":
            res.viol("read fault: %s" % r.verdict, ctx) if r.verdict in ("busy", "blocked") else res.inc("watchdog")
            continue
        if r.panicked or r.sig or r.rc not in (0, 1):
            res.viol("read error on an archive aborts the search: status %s signal %s: %s" % (r.rc, r.sig, r.err[:160].decode("utf-8", "replace")), ctx)
            continue
        rows = r.rows()
        ordinary = sorted(x for x in rows if not x.startswith("["))
        goodrows = sorted(x for x in rows if x.startswith("[r/good.zip] "))
        if ordinary != sorted(r0.rows()):
            res.viol("read error on one archive changed the ordinary rows", ctx)
            continue
        if goodrows != sorted("[r/good.zip] " + m["name"] for m in good):
            res.viol("read error on one archive lost members of another archive", ctx)
            continue
        res.cover("read_faults", "%s@%s" % (sysc, when))
        res.nt("readfault|%s|%s" % (sysc, when))
    res.sample({"kind": "readfault", "faults": job["faults"]}, cap=1)


MEMBER_NAMES2 = ["src/main.rs", "src/Lib.RS", "movie.MP4", "a/b/song.mp3", "doc.pdf", "Book.EPUB", "pic.jpeg", "font.ttf", "inner.zip", "x.tar.gz",
                 "plain", "notes.txt", "d/", "d/empty.c", "archive.7z", "noext.", "two.dots.docx"]
EXT_CLASSES = ["is_archive", "is_audio", "is_book", "is_doc", "is_font", "is_image", "is_source", "is_video"]


def job_membercols(res, rng, w, home, job):
    """Columns of archive members beyond the five the statement names: the extension classes (true exactly when the lower-cased
    member name ends with an extension of the active list), is_empty (stored size 0), fsize (the same rendering an ordinary file
    of that size gets) and dir (the member name's directory part)."""
    root = os.path.join(w, "m")
    os.mkdir(root)
    members = []
    with zipfile.ZipFile(os.path.join(root, "pack.zip"), "w") as z:
        for nm in rng.sample(MEMBER_NAMES2, rng.randint(6, len(MEMBER_NAMES2))):
            size = 0 if nm.endswith("/") else rng.choice([0, 1, 5, 999, 1000, 1024, 5000, 1500000])
            zi = zipfile.ZipInfo(nm, (2021, 5, 6, 7, 8, 10))
            zi.external_attr = ((stat.S_IFDIR | 0o755) if nm.endswith("/") else (stat.S_IFREG | 0o644)) << 16
            zi.create_system = 3
            zi.compress_type = zipfile.ZIP_DEFLATED
            z.writestr(zi, b"\0" * size)
            members.append((nm, size))
        # members without a stored unix mode (what `jar` writes): no permission bit and no special type is set for them -
        # certainly not the bits of the archive file, which is rwxrwxrwx here
        nomode = set(nm for nm, _sz in rng.sample(members, min(2, len(members))) if not nm.endswith("/"))
        for zi in z.filelist:
            if zi.filename in nomode:
                zi.external_attr = 0
    os.chmod(os.path.join(root, "pack.zip"), 0o6777)
    for size in set(sz for _n, sz in members):
        with open(os.path.join(root, "sz%d" % size), "wb") as f:
            f.truncate(size)
    # the active extension lists = what fselect writes into a fresh configuration
    r = q_run(res, w, home, "name from m into list")
    try:
        model.load_ext_lists(os.path.join(home, ".config/fselect/config.toml"))
    except (OSError, KeyError, ImportError) as e:
        res.inc("cannot read the default configuration: %s" % e)
        return
    PERMS = ["user_read", "user_exec", "group_write", "other_write", "other_exec", "suid", "sgid", "is_pipe", "is_socket"]
    cols = ["path", "size", "fsize", "dir", "is_empty"] + EXT_CLASSES + PERMS
    q = "%s from m archives into list" % ", ".join(cols)
    r = q_run(res, w, home, q)
    ctx = {"query": q, "members": members, "result": r.brief()}
    if r.verdict != "ok" or r.rc != 0 or r.err or r.panicked:
        if r.verdict in ("ok", "busy", "blocked"):
            res.viol("`%s`: %s status %s stderr %r" % (q, r.verdict, r.rc, r.err[:150]), ctx)
        return
    rows = [dict(zip(cols, x)) for x in r.rows(len(cols))]
    fsize_of = {int(x["size"]): x["fsize"] for x in rows if x["path"].startswith("m/sz")}
    got = {x["path"]: x for x in rows if x["path"].startswith("[")}
    b = lambda v: "true" if v else "false"
    for nm, size in members:
        cells = got.get("[m/pack.zip] " + nm)
        if cells is None:
            res.viol("member %r is not listed" % nm, ctx)
            return
        want = {"size": str(size), "fsize": fsize_of.get(size), "dir": os.path.dirname(nm.rstrip("/")) if not nm.endswith("/") else None}
        if not nm.endswith("/"):
            want["is_empty"] = b(size == 0)
        low = model.ascii_lower(nm)
        for c in EXT_CLASSES:
            want[c] = b(any(low.endswith(x) for x in model.EXT_LISTS[c]))
        if nm in nomode:
            for c in PERMS:
                want[c] = "false"
            res.count("members_without_stored_mode")
        elif not nm.endswith("/"):      # stored as a regular file, rw-r--r--
            want.update({"user_read": "true", "user_exec": "false", "group_write": "false", "other_write": "false", "other_exec": "false",
                         "suid": "false", "sgid": "false", "is_pipe": "false", "is_socket": "false"})
        for c, v in want.items():
            if v is not None and cells[c] != v:
                res.viol("member %r (stored size %d): %s printed %r, expected %r" % (nm, size, c, cells[c], v), ctx)
                return
        res.nt("membercols|%s|%d" % (nm, size))
        for c in EXT_CLASSES:
            if want[c] == "true":
                res.cover("member_ext_classes", c)
    res.count("member_rows_with_extra_columns", len(members))


def job_nonutf8(res, rng, w, home, job):
    """An archive whose own name, or a directory on the way to it, is not valid UTF-8: its members are listed like any others
    (the rows print the path lossily, so they are counted and their sizes compared)."""
    base = os.path.join(w, "nu").encode()
    os.mkdir(base)
    places = [b"plain.zip", b"caf\xe9/inner.zip", b"r\xe9sum\xe9.jar", b"d\xff/e\xfe/deep.war"]
    want = []
    for rel in places:
        os.makedirs(os.path.dirname(os.path.join(base, rel)), exist_ok=True)
        sizes = rng.sample([1, 5, 9, 33, 100, 1000, 4097], 3)
        with zipfile.ZipFile(os.path.join(base, rel).decode("utf-8", "surrogateescape"), "w") as z:
            for k, sz in enumerate(sizes):
                z.writestr("m%d.txt" % k, b"q" * sz)
        want += sizes
    for opts in ("archives", "arc dfs", "archives maxdepth 3"):
        q = "path, size from nu %s into list" % opts
        r = q_run(res, w, home, q)
        ctx = {"query": q, "archives": [repr(p) for p in places], "result": r.brief()}
        if r.verdict != "ok" or r.rc != 0 or r.err or r.panicked:
            if r.verdict in ("ok", "busy", "blocked"):
                res.viol("`%s` on archives below names that are not valid UTF-8: %s, status %s, stderr %r" % (q, r.verdict, r.rc, r.err[:150]), ctx)
            continue
        cells = r.out.decode("utf-8", "replace").split("\0")[:-1]
        got = sorted(int(cells[i + 1]) for i in range(0, len(cells) - 1, 2) if cells[i].startswith("["))
        if got != sorted(want):
            res.viol("`%s`: member sizes %s, the %d archives hold %s" % (q, got, len(places), sorted(want)), ctx)
            continue
        res.cover("config", "archive path not valid UTF-8 (%s)" % opts)
        res.nt("nonutf8|%s" % opts)


def job_config(res, rng, w, home, job):
    root = os.path.join(w, "g")
    os.mkdir(root)
    make_zip(rng, os.path.join(root, "a.zip"), 2)
    make_zip(rng, os.path.join(root, "b.pack"), 3)
    make_zip(rng, os.path.join(root, "C.PACK"), 1)
    h = runner.make_home(os.path.dirname(home), config='is_zip_archive = [".pack"]\n', name="home-zip")
    r = q_run(res, w, h, "path from g archives into list")
    ctx = {"result": r.brief()}
    if r.verdict != "ok" or r.rc != 0 or r.err:
        res.viol("configured zip extensions: status %s %r" % (r.rc, r.err[:100]), ctx)
        return
    rows = r.rows()
    from_zip = [x for x in rows if x.startswith("[g/a.zip]")]
    from_pack = [x for x in rows if x.startswith("[g/b.pack]") or x.startswith("[g/C.PACK]")]
    if from_zip or len(from_pack) != 4:
        res.viol("is_zip_archive = ['.pack']: members listed from a.zip: %d, from *.pack: %d (expected 0 and 4)" % (len(from_zip), len(from_pack)), ctx)
        return
    res.cover("config", "is_zip_archive override")
    res.nt("config|pack")
    res.nt("config|zip-not-listed")


def main(chk):
    quick = chk.tier == "quick"
    jobs = []
    for i in range(320 if quick else 1500):
        jobs.append({"id": "r%d" % i, "kind": "random", "seed": job_seed(chk.seed, "C19", i), "queries": 5 if quick else 8})
    n = len(small_archive())
    step = 40
    for lo in range(0, n, step):
        jobs.append({"id": "trunc%d" % lo, "kind": "corrupt", "what": "truncate", "lo": lo, "hi": lo + step, "seed": 0})
        jobs.append({"id": "flip%d" % lo, "kind": "corrupt", "what": "flip", "lo": lo, "hi": lo + step, "seed": 0})
    nows = [(2021, 1, 31, 12, 0, 0), (2021, 3, 31, 0, 0, 5), (2020, 2, 29, 23, 59, 0), (2024, 2, 29, 8, 0, 0), (2021, 5, 31, 1, 0, 0),
            (2021, 8, 30, 1, 0, 0), (2021, 12, 31, 23, 59, 50), (2021, 6, 15, 12, 0, 0)]
    for i in range(0, len(nows), 2):
        jobs.append({"id": "clock%d" % i, "kind": "clock", "seed": 0, "nows": nows[i:i + 2]})
    faults = [("read", "1"), ("read", "2"), ("read", "3+"), ("lseek", "1"), ("lseek", "2+"), ("read", "1+"), ("openat", "1")]
    for i in range(0, len(faults), 2 if not quick else 4):
        jobs.append({"id": "rf%d" % i, "kind": "readfault", "seed": job_seed(chk.seed, "C19", "rf%d" % i), "faults": faults[i:i + (2 if not quick else 4)]})
    jobs.append({"id": "cfg", "kind": "config", "seed": 1})
    for i in range(4 if quick else 24):
        jobs.append({"id": "nu%d" % i, "kind": "nonutf8", "seed": job_seed(chk.seed, "C19", "nu%d" % i)})
    for i in range(24 if quick else 120):
        jobs.append({"id": "mc%d" % i, "kind": "membercols", "seed": job_seed(chk.seed, "C19", "mc%d" % i)})
    if not quick:
        corrupt = [j for j in jobs if j["kind"] == "corrupt"]
        jobs += chk.shard(corrupt + [j for j in jobs if j["kind"] == "random"][:60], "asan", 120)
        jobs += chk.shard(corrupt, "valgrind", 40)
    chk.run_jobs(jobs, budget_s=420 if quick else 3000)
    return chk.finish(
        rule="trees with 1-5 zip archives (.zip .jar .war .ear, upper/mixed case; 0..9 members: nested directories, stored/deflated, modes "
             "incl. link type, dates across month ends, names with spaces/unicode), a zip with a wrong extension, a non-zip named .zip, an "
             "empty .zip and a directory named .zip; with `archives`: every member of every archive in the depth window exactly once with the "
             "central directory's size / is_dir / mode / modified, members obey WHERE and ORDER BY, rows of ordinary entries identical to "
             "the query without `archives`. Fault enumeration: EVERY truncation point and three bit patterns on every central-directory "
             "byte of a %d-byte archive; read/lseek/openat errors injected with strace on one archive; controlled clock at month ends and "
             "leap days; is_zip_archive overridden. Non-trivial = >= 1 member row / each corrupt variant; distinct by (options, where, "
             "archives, rows) and variant name." % n,
        assumptions=["reference = Python zipfile.infolist() of archives the harness wrote itself",
                     "WHERE on name/ext is not judged for members (their `name` carries the archive prefix); size / is_dir filters are",
                     "member rows of corrupt archives are unspecified; only crashes, status and the other rows are judged"],
        require={"where": 5, "corruption": 2, "corrupt_variants_searched": n, "clock_days": 6, "read_faults": 5, "config": 1},
        exhaustive={"truncation_points": n, "central_directory_byte_flips": "3 patterns per byte"},
    )
