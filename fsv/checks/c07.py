"""C07 - aggregate functions return the mathematical aggregate of the matching entries (metamorphic + exact arithmetic)."""
import itertools
import os
import random

from .. import model, runner, tree
from ..core import JobResult, job_seed

INNERS = ["size", "hardlinks", "uid", "line_count", "length(name)", "size + 1", "length(ext)", "gid"]
WHERES = [None, None, "size > 100", "name like '%a%'", "is_file", "size = 987654321", "uid = 1", "ext = 'txt'",
          "size between 3 and 2000", "not is_dir and size >= 1"]


def build(rng, root):
    """Returns the shape name; 'big' trees hold sparse files that must not be read (no line_count there)."""
    shape = rng.choice(["empty", "one", "two", "many", "many", "many", "big", "wide"])
    nodes = []
    if shape == "empty":
        pass
    elif shape == "one":
        nodes = [{"path": "a.txt", "kind": "file", "content": b"x\ny\n"}]
    elif shape == "wide":
        # thousands of rows: sums beyond 2^32, many equal values, multi-call directory reads
        for i in range(rng.choice([300, 1200, 2600])):
            nodes.append({"path": "w%05d.%s" % (i, rng.choice(["a", "b", "txt"])), "kind": "file",
                          "content": b"l\n" * (i % 5) + b"x" * (i % 11)})
        nodes.append({"path": "huge", "kind": "file", "size": 2 ** 32 + 12345, "sparse": True})
    elif shape == "two":
        nodes = [{"path": "a.txt", "kind": "file", "content": b"1\n2\n3\n"}, {"path": "bb", "kind": "file", "size": 4}]
    else:
        nodes = tree.gen_tree(rng, max_entries=45, max_depth=4, kinds=("file", "dir", "symlink"),
                              content=lambda r: b"".join(b"l\n" for _ in range(r.choice([0, 1, 2, 3, 7, 10, 33]))) + b"x" * r.choice([0, 1, 2, 5, 150]))
        if shape == "big":
            # the last three: sizes whose sum passes 2^53 with odd low bits (a sum kept in a double would be rounded)
            for i, s in enumerate(rng.sample([2 ** 31 + 1, 2 ** 32 + 3, 2 ** 40 + 7, 2 ** 33, 10 ** 12 + 1, 2 ** 41 + 5], 3)
                                  + rng.choice([[], [2 ** 52 + 1, 2 ** 52 + 3, 2 ** 52 + 7]])):
                nodes.append({"path": "big%d" % i, "kind": "file", "size": s, "sparse": True})
    for n in nodes:
        if n["kind"] != "symlink":
            n["owner"] = (rng.choice([0, 1, 1, 7]), rng.choice([0, 3]))
    tree.materialise(root, nodes)
    if shape in ("many", "two"):
        import zipfile
        os.makedirs(os.path.join(root, "zz"), exist_ok=True)
        with zipfile.ZipFile(os.path.join(root, "zz", "pack.zip"), "w") as z:
            for k in range(rng.randint(1, 6)):
                z.writestr("m%d.txt" % k, b"y" * rng.choice([0, 3, 11, 250, 4000]))
    return shape


def run_job(job):
    res = JobResult()
    rng = random.Random(job["seed"])
    sc = runner.new_scratch("c07")
    try:
        w = runner.work_dir(sc)
        home = runner.make_home(sc)
        root = os.path.join(w, "t")
        os.mkdir(root)
        shape = build(rng, root)

        def run(q):
            res.ev()
            return runner.run([q], cwd=w, home=home)

        pool = []
        for qi in range(job["queries"]):
            inner = rng.choice(INNERS)
            if shape in ("big", "wide") and inner == "line_count":
                inner = "size"
            where = rng.choice(WHERES)
            allow_empty = rng.random() < 0.3
            if inner == "line_count" and not allow_empty:
                where = "is_file" if where is None else "is_file and (%s)" % where
            wtxt = (" where " + where) if where else ""
            if job.get("subsets"):
                fns = job["subsets"][qi % len(job["subsets"])]
            else:
                fns = rng.sample(model.AGGS, rng.randint(1, 5))
            # the multiset, from fselect itself
            frm = "t"
            if inner in ("size", "length(name)", "size + 1", "length(ext)") and os.path.isdir(os.path.join(root, "zz")) and rng.random() < 0.4:
                frm = rng.choice(["t archives", "t/zz archives, t maxdepth 1", "t dfs archives"])
            elif allow_empty and inner in ("hardlinks", "uid") and os.path.isdir(os.path.join(root, "zz")):
                frm = "t archives"          # zip members have no such attribute: empty cells among the rows
            elif rng.random() < 0.15:
                frm = rng.choice(["t maxdepth 1, t mindepth 2", "t dfs", "t mindepth 2"])
            res.cover("from_clauses", frm)
            q0 = "%s from %s%s into list" % (inner, frm, wtxt)
            r0 = run(q0)
            if r0.verdict != "ok" or r0.rc != 0 or r0.err:
                if r0.verdict == "ok":
                    res.viol("row query failed: `%s` status %s stderr %r" % (q0, r0.rc, r0.err[:120]), {"query": q0})
                else:
                    res.inc("watchdog: %s on `%s`" % (r0.verdict, q0))
                continue
            cells = r0.rows()
            n_rows = len(cells)
            n_empty = sum(1 for c in cells if c == "")
            try:
                values = [int(float(c)) if "." in c else int(c) for c in cells if c != ""]
            except ValueError:
                res.inc("non-integer cell in the row query %r" % cells[:3])
                continue
            cols = []
            for fn in fns:
                name = rng.choice(model.AGG_ALIASES.get(fn, [fn]))
                name = rng.choice([name, name.upper()])
                arg = "*" if (fn == "count" and rng.random() < 0.6) else inner
                cols.append("%s(%s)" % (name, arg))
            q = "%s from %s%s into list" % (", ".join(cols), frm, wtxt)
            pool.append(q)
            r = run(q)
            ctx = {"query": q, "row_query": q0, "values": values[:50], "result": r.brief()}
            if r.verdict != "ok":
                res.viol("busy loop on `%s`" % q, ctx) if r.verdict == "busy" else res.inc("watchdog")
                continue
            if r.rc != 0 or r.err or r.panicked:
                res.viol("`%s`: status %s stderr %r" % (q, r.rc, r.err[:150]), ctx)
                continue
            out = r.out.split(b"\0")
            if out and out[-1] == b"":
                out.pop()
            if len(out) != len(cols):
                res.viol("`%s`: %d cells printed, an aggregate query must print exactly one row of %d" % (q, len(out), len(cols)), ctx)
                continue
            bad = False
            float_ok = abs(sum(values)) < 2 ** 53
            for fn, col, cell in zip(fns, cols, out):
                cell = cell.decode()
                if n_empty:
                    # entries without a value in the column (a directory's line_count, a zip member's uid): COUNT(*) counts entries,
                    # SUM adds what there is, AVG is SUM divided by COUNT; the other aggregates are not judged on such a multiset
                    if fn == "count" and col.endswith("(*)"):
                        good = cell == str(n_rows)
                    elif fn == "sum":
                        good = cell == str(sum(values))
                    elif fn == "avg" and n_rows:
                        good = model.agg_matches("avg", cell, sum(values) / n_rows) is not False
                    else:
                        res.count("dont_care_cells")
                        continue
                    if not good:
                        res.viol("%s over %d entries, %d of them without a value, printed %r (values present: sum %d)" % (col, n_rows, n_empty, cell, sum(values)), ctx)
                        bad = True
                        break
                    res.count("aggregates_over_rows_with_empty_cells")
                    continue
                exp = model.aggregate(fn, values)
                if fn not in ("count", "sum", "min", "max") and not float_ok:
                    continue
                ok = model.agg_matches(fn, cell, exp)
                if ok is None:
                    res.count("dont_care_cells")
                    continue
                if not ok:
                    res.viol("%s over %d rows printed %r, textbook value %s (values e.g. %s)" % (
                        col, len(values), cell, float(exp) if not isinstance(exp, int) else exp, values[:6]), ctx)
                    bad = True
                    break
                res.cover("fn_rows", "%s %s" % (fn, "0" if not values else "1" if len(values) == 1 else "2" if len(values) == 2 else "many"))
                res.cover("inner", inner)
                if fn == "avg" and exp is not None and exp.denominator != 1:
                    res.count("fractional_means_checked")
            if not bad:
                if len(values) >= 1:
                    res.nt("%s|%s|%s|%d" % (",".join(sorted(fns)), inner, where, len(values)))
                res.sample({"query": q, "cells": [c.decode() for c in out], "rows": len(values)}, cap=3)
            # an aggregate's value does not depend on the aggregates next to it: the same columns interleaved with aggregates over
            # another expression print what they print here, and so do the others compared with their own query
            if not bad and rng.random() < 0.35:
                inner2 = rng.choice([x for x in ("size", "hardlinks", "uid", "length(name)", "gid", "size + 1") if x != inner])
                cols2 = ["%s(%s)" % (rng.choice(["min", "max", "sum", "avg", "MAX", "Min", "count"]), inner2) for _ in range(rng.randint(1, 3))]
                qb = "%s from %s%s into list" % (", ".join(cols2), frm, wtxt)
                rb = run(qb)
                mixed = []
                ia, ib = list(cols), list(cols2)
                while ia or ib:
                    src = rng.choice([x for x in (ia, ib) if x])
                    mixed.append(("a" if src is ia else "b", src.pop(0)))
                if rng.random() < 0.5:
                    mixed.reverse()
                qm = "%s from %s%s into list" % (", ".join(c for _, c in mixed), frm, wtxt)
                rm_ = run(qm)
                if all(x.verdict == "ok" and x.rc == 0 and not x.err and not x.panicked for x in (rb, rm_)):
                    cb = rb.out.split(b"\0")[:-1]
                    cm = rm_.out.split(b"\0")[:-1]
                    alone = {}
                    for c, v in list(zip(cols, out)) + list(zip(cols2, cb)):
                        alone.setdefault(c, v)
                    if len(cb) != len(cols2) or len(cm) != len(mixed):
                        res.viol("`%s` / `%s`: %d and %d cells for %d and %d aggregates" % (qb, qm, len(cb), len(cm), len(cols2), len(mixed)),
                                 {"query": qm, "query_b": qb})
                    else:
                        diff = [(c, alone[c].decode(), v.decode()) for (_, c), v in zip(mixed, cm) if alone[c] != v]
                        if diff:
                            res.viol("%s prints %r in `%s` and %r when its own column set is selected alone" % (diff[0][0], diff[0][2], qm, diff[0][1]),
                                     {"query": qm, "query_a": q, "query_b": qb, "differences": diff[:4]})
                        else:
                            res.count("mixed_argument_select_lists_compared")
                elif any(x.verdict == "busy" or (x.verdict == "ok" and (x.panicked or x.rc != 0 or x.err)) for x in (rb, rm_)):
                    res.viol("`%s` or `%s` fails: %s / %s" % (qb, qm, rb.brief(), rm_.brief()), {"query": qm, "query_b": qb})
        # history: in interactive mode (`fselect -i`) the same queries run in one process, one after the other - each must
        # print what it prints when run alone
        if len(pool) >= 2 and job.get("session", True):
            runner.session_matches(res, rng.sample(pool, min(4, len(pool))), w, home, "aggregate queries")
    finally:
        runner.rm_scratch(sc)
    return res


def main(chk):
    quick = chk.tier == "quick"
    n = 800 if quick else 2000
    jobs = [{"id": "j%d" % i, "seed": job_seed(chk.seed, "C07", i), "queries": 10 if quick else 20} for i in range(n)]
    subsets = []
    if not quick:
        for k in range(1, 10):
            for c in itertools.combinations(model.AGGS, k):
                subsets.append(list(c))
        for i in range(0, len(subsets), 16):
            jobs.append({"id": "sub%d" % i, "seed": job_seed(chk.seed, "C07", "s%d" % i), "queries": 16, "subsets": subsets[i:i + 16]})
    chk.run_jobs(jobs, budget_s=300 if quick else 3000)
    return chk.finish(
        rule="trees with 0, 1, 2 and many matching entries (fractional means, sparse files up to 2^41 bytes) x subsets of the nine aggregate "
             "functions (every alias) over size, hardlinks, uid, gid, line_count, length(name), length(ext), size + 1 x WHERE filters. The "
             "multiset comes from `<inner> from t where W`; COUNT/SUM/MIN/MAX must be exact, AVG/VAR/STDDEV within 1e-9 relative of the "
             "Fraction-exact textbook value. Non-trivial = >= 1 matching row; distinct by (function set, inner expression, where, rows).",
        assumptions=["sample statistics over < 2 rows and MIN/MAX/AVG over 0 rows are don't-care (the statement does not define them)",
                     "real-valued aggregates are not judged when |SUM| >= 2^53", "line_count queries are restricted to regular files"],
        require={"fn_rows": 25, "fractional_means_checked": 5, "mixed_argument_select_lists_compared": 20},
        exhaustive=({"aggregate_subsets": len(subsets)} if subsets else None),
    )
