"""C06 - LIMIT N returns min(N, matches) rows, and with ORDER BY the true top N (metamorphic, exhaustive in N)."""
import collections
import os
import random
import zipfile

from .. import ordering, runner
from ..core import JobResult, job_seed

WHERES = [None, None, "size > 9", "name like '%a%'", "size between 5 and 500", "not is_dir"]


def add_archives(rng, root):
    for zi, rel in enumerate(["z1.zip", "d1/z2.zip", "d2/z3.jar"]):
        if rng.random() < 0.25:
            continue
        p = os.path.join(root, rel)
        os.makedirs(os.path.dirname(p), exist_ok=True)
        with zipfile.ZipFile(p, "w", compression=rng.choice([zipfile.ZIP_STORED, zipfile.ZIP_DEFLATED])) as z:
            for k in range(rng.randint(0, 9)):
                name = rng.choice(["a", "b", "m", "zz", "a.txt", "sub/a", "sub/b.txt", "x10", "x9"]) + str(k)
                z.writestr(name, b"x" * rng.choice([0, 1, 3, 5, 7, 9, 50, 500, 2, 4]))


def monitor_topn(res, r, limit, ctx):
    n = 0
    for ev in r.events:
        if ev["ev"] == "topn":
            n += 1
            if ev["limit"] != "none" and int(ev["count"]) > int(ev["limit"]) + 1:
                res.viol("hook topn: buffer holds %s rows with limit %s" % (ev["count"], ev["limit"]), ctx)
                break
        if ev["ev"] == "row" and ev["buffered"] == "false" and limit and int(ev["found"]) > limit:
            res.viol("hook row: row %s accepted although the limit %d was reached" % (ev["found"], limit), ctx)
            break
    res.count("hook_topn_events", n)


def run_job(job):
    res = JobResult()
    rng = random.Random(job["seed"])
    sc = runner.new_scratch("c06")
    try:
        w = runner.work_dir(sc)
        home = runner.make_home(sc)
        root = os.path.join(w, "t")
        os.mkdir(root)
        ordering.order_tree(rng, root, n_files=rng.randint(4, 22), extra=job.get("extra", 0))
        add_archives(rng, root)

        cwd_box = [w]

        def run(q, trace=False):
            res.ev()
            return runner.run([q], cwd=cwd_box[0], home=home, trace=trace)

        pool = []
        for qi in range(job["queries"]):
            arch = rng.random() < 0.4
            opts = rng.choice(["", "", " bfs", " dfs"]) + (" archives" if arch else "")
            if rng.random() < 0.25:
                frm = "t/d1%s, t/d2%s, t/many maxdepth 1" % (opts, opts)
            else:
                frm = "t" + opts
            # a query may leave out FROM and search the current directory: the limited queries do, M is learned with `from .`
            nofrom = opts == "" and frm == "t" and rng.random() < 0.3
            cwd_box[0] = root if nofrom else w
            if nofrom:
                frm = "."
                res.count("queries_without_from")
            where = rng.choice(WHERES)
            ordered = rng.random() < 0.6
            wtxt = (" where " + where) if where else ""
            if ordered:
                ob, exprs, asc = ordering.gen_keys(rng, ["path"], max_keys=2)
                # keys with many ties so that ties straddle the cut
                if rng.random() < 0.6:
                    exprs = [rng.choice(["size", "ext", "size % 7", "uid", "length(name)"])]
                    asc = [rng.random() < 0.5]
                    ob = exprs[0] + ("" if asc[0] else " desc")
                if arch:
                    # columns that exist for archive members
                    exprs = [rng.choice(["size", "name", "ext", "length(name)", "size % 7"])]
                    asc = [rng.random() < 0.5]
                    ob = exprs[0] + ("" if asc[0] else " desc")
                kinds = [ordering.key_kind(e) for e in exprs]
                table, fail = ordering.learn_keys(run, exprs, frm, where)
                if table is None:
                    q, r = fail
                    if r.verdict == "ok":
                        res.viol("key-learning query failed: `%s` status %s stderr %r" % (q, r.rc, r.err[:120]),
                                 {"query": q, "result": r.brief()})
                    else:
                        res.inc("watchdog")
                    continue
                all_rows = list(table)
                sorted_keys = ordering.sorted_keys(list(table.values()), kinds, asc)
                otxt = " order by " + ob
            else:
                q0 = "path from %s%s into list" % (frm, wtxt)
                r0 = run(q0)
                if r0.verdict != "ok" or r0.rc != 0 or r0.err:
                    res.viol("unlimited query failed: `%s` status %s stderr %r" % (q0, r0.rc, r0.err[:120]), {"query": q0})
                    continue
                all_rows = r0.rows()
                otxt = ""
            M = len(all_rows)
            universe = collections.Counter(all_rows)
            ns = list(range(1, M + 3)) + [0, None, 2147483647, 2147483648, 4294967295]      # limits around 2^31 and 2^32 - 1 are legal
            if M > 45:
                ns = sorted(set(rng.sample(range(1, M + 3), 40) + [1, M - 1, M, M + 1, M + 2]
                                + [x for x in (255, 256, 257, 1023, 1024, 1025) if x <= M])) + [0, None, 2147483648, 4294967295]
            all_ok = True
            # a column without any file attribute next to `path` must not change how many rows come back
            extra_col = rng.choice(["", "", ", 'tag'", ", 1 + 2", ", upper('x')", ", 7"])
            # ... and neither must the place where the attribute is mentioned: as a plain column, or as a later argument of a call
            # whose value is the path again
            path_col = rng.choice(["path", "path", "path", "concat('', path)", "coalesce('', path)", "concat('', '', path)", "substr(path, 1)"])
            res.cover("path_column_spelling", path_col)
            for N in ns:
                ltxt = "" if N is None else " limit %d" % N
                q = "%s%s%s%s%s%s into list" % (path_col, extra_col, "" if nofrom else " from " + frm, wtxt, otxt, ltxt)
                if not nofrom:
                    pool.append(q)
                r = run(q, trace=(N is not None and N % 5 == 1))
                ctx = {"query": q, "M": M, "N": N, "result": r.brief()}
                if r.verdict != "ok":
                    res.viol("busy loop on `%s`" % q, ctx) if r.verdict == "busy" else res.inc("watchdog")
                    all_ok = False
                    continue
                if r.rc != 0 or r.err or r.panicked:
                    res.viol("`%s`: status %s stderr %r" % (q, r.rc, r.err[:150]), ctx)
                    all_ok = False
                    continue
                try:
                    rows = [x[0] for x in r.rows(2)] if extra_col else r.rows()
                except ValueError as e:
                    res.viol("`%s`: %s" % (q, e), ctx)
                    all_ok = False
                    continue
                want = M if not N else min(N, M)
                if len(rows) != want:
                    res.viol("`%s`: %d rows, expected min(N, M) = %d (M = %d)" % (q, len(rows), want, M), ctx)
                    all_ok = False
                    continue
                extra = collections.Counter(rows) - universe
                if extra:
                    ctx["extra"] = list(extra)[:5]
                    res.viol("`%s`: limited result is not a sub-multiset of the unlimited result" % q, ctx)
                    all_ok = False
                    continue
                if ordered:
                    got_keys = [table[p] for p in rows]
                    bad = None
                    for i in range(len(rows)):
                        if ordering.cmp_rows(got_keys[i], sorted_keys[i], kinds, asc) != 0:
                            bad = i
                            break
                    if bad is not None:
                        ctx["got_keys"] = got_keys[:bad + 2]
                        ctx["want_keys"] = sorted_keys[:bad + 2]
                        res.viol("`%s`: key at position %d is %s, the fully sorted result has %s there" % (
                            q, bad, got_keys[bad], sorted_keys[bad]), ctx)
                        all_ok = False
                        continue
                if r.events:
                    monitor_topn(res, r, N, ctx)
                res.count("limits_checked")
            if all_ok:
                res.cover("paths", "%s %s %s" % ("ordered" if ordered else "streamed", "archives" if arch else "plain",
                                                 "multi" if "," in frm else "single"))
                res.cover("traversal", opts.strip().split(" ")[0] if opts.strip() else "default")
                if M >= 2:
                    res.nt("%s|%s|%s|%d" % (frm, where, otxt, M))
                res.sample({"query": "path from %s%s%s limit N" % (frm, wtxt, otxt), "M": M, "N_values": len(ns)}, cap=2)
        # history: limited and unlimited queries in one interactive session (`fselect -i`): no counter or buffer survives a query
        if len(pool) >= 2:
            runner.session_matches(res, rng.sample(pool, min(5, len(pool))), w, home, "limited queries")
    finally:
        runner.rm_scratch(sc)
    return res


def main(chk):
    quick = chk.tier == "quick"
    n = 128 if quick else 1200
    jobs = [{"id": "j%d" % i, "seed": job_seed(chk.seed, "C06", i), "queries": 4 if quick else 8} for i in range(n)]
    for i in range(2 if quick else 12):
        jobs.append({"id": "large%d" % i, "seed": job_seed(chk.seed, "C06", "L%d" % i), "queries": 2, "extra": 1500})
    chk.run_jobs(jobs, budget_s=300 if quick else 3000)
    return chk.finish(
        rule="for each generated (tree, query) pair - filtered or not, ordered or not (keys with many ties), 1-3 roots, bfs/dfs, with and "
             "without `archives` - EVERY N in 1..M+2 plus `limit 0` and no limit is run (M = rows of the unlimited query): row count = "
             "min(N, M); sub-multiset of the unlimited rows; ordered results' key sequence equals the first N keys of the fully sorted "
             "unlimited result (ties compare keys only). Non-trivial = M >= 2; distinct by (from, where, order, M).",
        assumptions=["the unlimited result and the key values come from fselect itself (metamorphic)",
                     "directory listing order is whatever readdir returns; it is assumed stable between two runs on an unchanged tmpfs tree"],
        require={"paths": 6, "path_column_spelling": 5},
        exhaustive={"N": "every N in 1..M+2, plus 0 and absent, for every generated query (sampled 40 values when M > 45)"},
    )
