"""C09 - every output format is well-formed and carries exactly the result table."""
import collections
import html.parser
import json
import os
import random
import string

from .. import runner
from ..core import JobResult, job_seed

PUNCT = [c for c in string.punctuation if c != "/"]
CTRL = ["\t", "\n", "\r", "\x01", "\x07", "\x0b", "\x1b", "\x7f"]
MULTI = ["é", "ß", "日本語", "😀", "​", "ﷺ", "á"]
COLS = ["name", "path", "size", "ext", "dir", "mode", "is_dir", "upper(name)", "length(name)", "lower(name)", "uid",
        "concat(name, '|x')", "hardlinks"]


def gen_names(rng, n):
    names = set()
    while len(names) < n:
        c = rng.random()
        if c < 0.3:
            nm = rng.choice(["plain", "a,b", 'q"uote', "it's", "back`tick", "<td>", "a&b", "a&amp;b", "</tr>", "tab\there",
                             "line\nbreak", "cr\rhere", "crlf\r\nx", " lead", "trail ", '"', "''", ",", "<", ">", "&", "a\\b",
                             "x\ty\nz", "[1]", "{k:v}", "null", "true", "-", "--", "<!--", "]]>", "&#65;", "%s", "\\n", "\\"])
        else:
            ln = rng.randint(1, 10)
            nm = "".join(rng.choice(PUNCT * 3 + CTRL + MULTI + list("abXY09 ")) for _ in range(ln))
        if nm in (".", "..") or "/" in nm or "\0" in nm or len(nm.encode()) > 250 or not nm:
            continue
        names.add(nm)
    return sorted(names)


class StrictCsvError(Exception):
    pass


def parse_csv_strict(text):
    """RFC 4180: records separated by LF or CRLF, fields by comma, quoted fields may contain anything with ""
    for a quote; an unquoted field must not contain quote, comma, CR or LF."""
    records, rec, field = [], [], []
    i, n = 0, len(text)
    at_field_start = True
    while i < n:
        c = text[i]
        if at_field_start and c == '"':
            i += 1
            while True:
                if i >= n:
                    raise StrictCsvError("unterminated quoted field")
                if text[i] == '"':
                    if i + 1 < n and text[i + 1] == '"':
                        field.append('"')
                        i += 2
                        continue
                    i += 1
                    break
                field.append(text[i])
                i += 1
            if i < n and text[i] not in ",\r\n":
                raise StrictCsvError("garbage after closing quote at %d" % i)
            at_field_start = False
            continue
        if c == ",":
            rec.append("".join(field))
            field = []
            at_field_start = True
            i += 1
            continue
        if c == "\n" or (c == "\r" and i + 1 < n and text[i + 1] == "\n"):
            rec.append("".join(field))
            records.append(rec)
            rec, field = [], []
            at_field_start = True
            i += 2 if c == "\r" else 1
            continue
        if c in '"\r':
            raise StrictCsvError("bare %r inside an unquoted field at %d" % (c, i))
        field.append(c)
        at_field_start = False
        i += 1
    if field or rec or not at_field_start:
        rec.append("".join(field))
        records.append(rec)
    return records


class TableParser(html.parser.HTMLParser):
    VOID = {"br", "hr", "img", "input", "meta", "link"}

    def __init__(self):
        super().__init__(convert_charrefs=True)
        self.stack = []
        self.rows = []
        self.cell = None
        self.errors = []

    def handle_starttag(self, tag, attrs):
        if tag in self.VOID:
            return
        self.stack.append(tag)
        if tag == "tr":
            self.rows.append([])
        elif tag == "td":
            if not self.rows or self.stack[-2:-1] != ["tr"]:
                self.errors.append("td outside tr")
            self.cell = []

    def handle_endtag(self, tag):
        if not self.stack or self.stack[-1] != tag:
            self.errors.append("mismatched </%s> (open: %s)" % (tag, self.stack[-3:]))
            return
        self.stack.pop()
        if tag == "td":
            if self.rows:
                self.rows[-1].append("".join(self.cell or []))
            self.cell = None

    def handle_data(self, data):
        if self.cell is not None:
            self.cell.append(data)
        elif data.strip():
            self.errors.append("text outside a cell: %r" % data[:20])

    def handle_comment(self, data):
        self.errors.append("comment in output")

    def handle_decl(self, decl):
        self.errors.append("declaration in output")

    def unknown_decl(self, data):
        self.errors.append("unknown declaration in output")

    def handle_pi(self, data):
        self.errors.append("processing instruction in output")


def decode_html(text):
    p = TableParser()
    p.feed(text)
    p.close()
    if p.stack:
        p.errors.append("unclosed tags %s" % p.stack)
    exp_outer = text.startswith("<html><body><table>") and text.endswith("</table></body></html>")
    if not exp_outer:
        p.errors.append("document frame missing")
    return p.rows, p.errors


def decode(fmt, raw, ncols):
    """Returns (rows as list of lists or None, error string). For json rows are sorted value lists."""
    try:
        text = raw.decode("utf-8")
    except UnicodeDecodeError as e:
        return None, "output is not UTF-8: %s" % e
    if fmt == "json":
        try:
            doc = json.loads(text)
        except ValueError as e:
            return None, "invalid JSON: %s" % e
        if not isinstance(doc, list) or not all(isinstance(o, dict) for o in doc):
            return None, "JSON is not an array of objects"
        for o in doc:
            if len(o) != ncols or not all(isinstance(v, str) for v in o.values()):
                return None, "JSON object has %d members for %d columns" % (len(o), ncols)
        return [sorted(o.values()) for o in doc], None
    if fmt == "csv":
        try:
            recs = parse_csv_strict(text)
        except StrictCsvError as e:
            return None, "invalid CSV: %s" % e
        return recs, None
    if fmt == "html":
        rows, errs = decode_html(text)
        if errs:
            return None, "malformed HTML: %s" % errs[0]
        return rows, None
    if fmt == "tabs":
        if not text:
            return [], None
        if not text.endswith("\n"):
            return None, "tabs output does not end with a newline"
        return [l.split("\t") for l in text[:-1].split("\n")], None
    if fmt == "lines":
        if not text:
            return [], None
        cells = text[:-1].split("\n")
        if len(cells) % ncols:
            return None, "lines output has %d lines for %d columns" % (len(cells), ncols)
        return [cells[i:i + ncols] for i in range(0, len(cells), ncols)], None
    raise ValueError(fmt)


def run_job(job):
    res = JobResult()
    rng = random.Random(job["seed"])
    sc = runner.new_scratch("c09")
    try:
        w = runner.work_dir(sc)
        home = runner.make_home(sc)
        d = os.path.join(w, "d")
        os.mkdir(d)
        shape = job.get("shape") or rng.choice(["empty", "one", "many", "many", "many", "big"])
        n = {"empty": 0, "one": 1, "many": rng.randint(2, 14), "big": 3, "thousands": 40}[shape]
        made = []
        for nm in gen_names(rng, n):
            try:
                with open(os.path.join(d, nm), "w") as f:
                    f.write("x" * rng.randrange(0, 30))
                made.append(nm)
            except OSError as e:
                res.inc("name refused by the file system: %r %s" % (nm, e))
        if shape == "thousands":
            # several thousand rows (plain names next to the hostile ones): output buffers are filled and flushed many times
            for i in range(job.get("rows", 3000)):
                with open(os.path.join(d, "r%05d%s" % (i, rng.choice(["", ".txt", ",x", ' "q"', "&<>", "\tz"]))), "w") as f:
                    f.write("x" * (i % 7))
            res.count("tables_with_thousands_of_rows")
        if shape == "big":
            # one record larger than 8 KiB of multi-byte text for the CSV writer's buffer boundary
            # ... whose first component may hold a raw line feed, tab or carriage return: what follows the last line feed of a
            # row is then longer than any line buffer, in the formats that print it raw
            first = rng.choice(["dir", "li\nne", "li\nne", "t\tab", "c\rr", "q\"uo,te"])
            res.cover("big_record_first_component", repr(first))
            p = d
            for k in range(14):
                p = os.path.join(p, (first if k == 0 else "dir") + "日" * 60 + str(k))
                os.mkdir(p)
        # a second root (0..3 entries): rows, separators and the footer must not depend on which root a row comes from
        os.mkdir(os.path.join(w, "e"))
        for nm in gen_names(rng, rng.choice([0, 1, 3])):
            try:
                with open(os.path.join(w, "e", nm), "w") as f:
                    f.write("y" * rng.randrange(0, 30))
            except OSError:
                pass
        pool = []
        for qi in range(job["queries"]):
            frm = rng.choice(["d", "d", "d", "d, e", "e, d", "d dfs", "d, e, d", "e, e"])
            path = rng.choice(["streamed", "ordered", "aggregate", "grouped"])
            if shape == "thousands":
                # fselect recomputes every aggregate over all rows seen so far for each new row (quadratic, upstream design):
                # aggregates over thousands of rows are a matter of patience, not of this property
                if job.get("rows", 3000) > 3000:
                    path = rng.choice(["streamed", "ordered"])
                elif path in ("aggregate", "grouped"):
                    frm = "d"
            ncols = rng.randint(1, 6)
            if path in ("streamed", "ordered"):
                cols = rng.sample(COLS, ncols)
                if shape == "big" and rng.random() < 0.6:
                    cols = ["path", "dir", "upper(path)", "lower(path)", "name"]   # > 8 KiB per record
                q = "%s from %s" % (", ".join(cols), frm)
                if rng.random() < 0.3:
                    q += " where size >= %d" % rng.choice([0, 5, 15])
                if path == "ordered":
                    q += " order by %s" % rng.choice(["name", "size desc, name", "1"])
                if rng.random() < 0.3:
                    q += " limit %d" % rng.choice([1, 2, 5, 100])
                ordered_cmp = True
            elif path == "aggregate":
                cols = rng.sample(["count(*)", "sum(size)", "min(size)", "max(size)", "avg(size)", "max(hardlinks)"], min(ncols, 6))
                q = "%s from %s" % (", ".join(cols), frm)
                ordered_cmp = True
            else:
                key = rng.choice(["name", "ext", "mode", "upper(name)"])
                cols = [key] + rng.sample(["count(*)", "sum(size)", "min(size)", "max(size)"], min(ncols, 4) - 1 if ncols > 1 else 0)
                q = "%s from %s group by %s" % (", ".join(cols), frm, key)
                if rng.random() < 0.5:
                    q += " order by %s" % key
                ordered_cmp = "order by" in q
            ncols = len(cols)
            r0 = runner.run([q + " into list"], cwd=w, home=home)
            res.ev()
            if r0.verdict != "ok" or r0.rc != 0 or r0.err:
                if r0.verdict == "ok":
                    res.viol("`%s into list`: status %s stderr %r" % (q, r0.rc, r0.err[:150]), {"query": q, "result": r0.brief()})
                else:
                    res.inc("watchdog %s on `%s`" % (r0.verdict, q))
                continue
            try:
                ref = r0.rows(ncols) if ncols > 1 else [(x,) for x in r0.rows()]
            except ValueError as e:
                res.viol("`%s into list`: %s" % (q, e), {"query": q})
                continue
            ref = [list(x) for x in ref]
            all_ok = True
            for fmt in ("json", "csv", "html", "tabs", "lines"):
                fq = q + " into " + rng.choice([fmt, fmt.upper()])
                if ordered_cmp and shape != "thousands":
                    pool.append(fq)
                r = runner.run([fq], cwd=w, home=home, trace=True)
                res.ev()
                ctx = {"query": fq, "names": made, "list_table": ref[:20], "result": r.brief()}
                if r.verdict != "ok":
                    res.viol("busy loop on `%s`" % fq, ctx) if r.verdict == "busy" else res.inc("watchdog")
                    all_ok = False
                    continue
                if r.rc != 0 or r.err or r.panicked:
                    res.viol("`%s`: status %s stderr %r" % (fq, r.rc, r.err[:150]), ctx)
                    all_ok = False
                    continue
                if fmt in ("tabs", "lines"):
                    seps = "\t\n" if fmt == "tabs" else "\n"
                    if any(any(s in cell for s in seps) for row in ref for cell in row):
                        res.count("flat_format_skipped_value_contains_separator")
                        continue
                rows, err = decode(fmt, r.out, ncols)
                if err:
                    res.viol("`into %s` on the %s path: %s" % (fmt, path, err), ctx)
                    all_ok = False
                    continue
                want = [sorted(x) for x in ref] if fmt == "json" else ref
                same = (rows == want) if ordered_cmp else (sorted(map(tuple, rows)) == sorted(map(tuple, want)))
                if not same:
                    ctx["decoded"] = rows[:20]
                    res.viol("`into %s` on the %s path decodes to a different table than `into list` (%d vs %d rows)" % (
                        fmt, path, len(rows), len(ref)), ctx)
                    all_ok = False
                    continue
                # O3: writer protocol  header (row (sep row)*)? footer
                kinds = collections.Counter(ev["kind"] for ev in r.events if ev["ev"] == "out")
                if r.events and (kinds["header"] != 1 or kinds["footer"] != 1 or kinds["sep"] != max(0, len(ref) - 1)):
                    res.viol("hook out: writer protocol violated on the %s path into %s: %s for %d rows" % (
                        path, fmt, dict(kinds), len(ref)), ctx)
                    all_ok = False
                    continue
                res.cover("format_path", "%s %s" % (fmt, path))
                res.cover("from", frm)
                res.count("hook_out_events", sum(kinds.values()))
            if all_ok:
                res.cover("rows_class", "0" if not ref else "1" if len(ref) == 1 else "many")
                res.cover("ncols", ncols)
                hostile = set(ch for row in ref for cell in row for ch in cell if ch in '",\t\n\r<>&\'`' or ord(ch) < 32 or ord(ch) > 127)
                for ch in hostile:
                    res.cover("hostile_chars_in_values", repr(ch) if ord(ch) < 128 else "non-ascii")
                if ref and max(sum(len(c.encode()) for c in row) for row in ref) > 8192:
                    res.count("records_over_8KiB")
                if ref:
                    res.nt("%s|%s|%d" % (path, q, len(ref)))
                res.sample({"query": q, "path": path, "rows": len(ref), "first_row": ref[:1]}, cap=3)
        # history: several formats in one interactive session (`fselect -i`): every document is complete and separate
        if len(pool) >= 2:
            runner.session_matches(res, rng.sample(pool, min(5, len(pool))), w, home, "output formats")
    finally:
        runner.rm_scratch(sc)
    return res


def main(chk):
    quick = chk.tier == "quick"
    n = 240 if quick else 2000
    jobs = [{"id": "j%d" % i, "seed": job_seed(chk.seed, "C09", i), "queries": 6 if quick else 10} for i in range(n)]
    jobs += [{"id": "k%d" % i, "seed": job_seed(chk.seed, "C09", "k%d" % i), "queries": 4, "shape": "thousands", "rows": 3000 if i % 2 else 9000}
             for i in range(4 if quick else 24)]
    chk.run_jobs(jobs, budget_s=300 if quick else 3000)
    return chk.finish(
        rule="directories whose file names are drawn from every printable ASCII punctuation character, TAB/LF/CR and other control "
             "characters, all three quote kinds, < > &, multi-byte UTF-8 and emoji (0, 1, many rows; one case with a > 8 KiB record; tables of 3000 and 9000 rows); "
             "select lists of 1..6 distinct columns; one root, two roots in either order, a root listed twice; each query is run `into list` (reference table) and into json, csv, html, tabs, lines on "
             "the streamed, ordered, aggregate and grouped result paths; outputs are decoded with json.loads, a strict RFC 4180 parser, a "
             "tag-stack HTML parser and compared with the reference table. Non-trivial = >= 1 row; distinct by (path, query, rows).",
        assumptions=["JSON objects are compared as value multisets plus member count (key naming is not part of the property)",
                     "tabs/lines are compared only when no value contains the separator",
                     "grouped rows without ORDER BY are compared as multisets (group order is unspecified)"],
        require={"from": 6, "format_path": 20, "hostile_chars_in_values": 12, "big_record_first_component": 4},
        exhaustive={"formats_x_paths": "json csv html tabs lines x streamed ordered aggregate grouped (list is the reference)"},
    )
