"""C03 - AND / OR / NOT and brackets obey Boolean algebra over the result sets (metamorphic)."""
import itertools
import os
import random
import zipfile

from .. import runner, tree
from ..core import JobResult, job_seed

# atom triples; the first triple realises all 8 truth assignments on the fixed tree below
TRIPLES = [
    ["size > 100", "name like '%a%'", "uid = 0"],
    ["size >= 100", "name =~ '^a'", "user_exec"],
    ["size < 100", "name === 'abc'", "size between 50 and 100"],
    ["size <= 100", "name != 'abc'", "gid not between 1 and 5"],
    ["name not like '%a%'", "hardlinks = 1", "mode = '-rw-r--r--'"],
    ["size = 100", "name = 'a*'", "other_read = false"],
    ["size ne 100", "ext eq 'txt'", "is_file"],
    ["length(name) > 3", "name notlike 'b%'", "uid !== 1"],
    ["name === 'a*'", "name !== '?yz'", "name = 'a*'"],
    ["name eeq 'a*c'", "ext ene 't?t'", "name like 'a*'"],
    ["name =~ '^a.c$'", "name !=~ 'a.c'", "name notlike 'a_c'"],
    # atoms that could interfere through per-query state: patterns differing only in letter case, the same text under
    # different operator kinds, the same atom on different columns
    ["name =~ '^[A-Z]'", "name =~ '^[a-z]'", "name !=~ '^[a-b]'"],
    ["name =~ '\\d'", "name =~ '\\D$'", "ext rx '\\D'"],
    ["name === 'ABC'", "name = 'ABC'", "name === 'abc'"],
    ["name like 'A%'", "name =~ 'A%'", "name = 'a%'"],
    ["ext = 'TXT'", "name = 'TXT'", "ext === 'txt'"],
    # date atoms: a literal denotes a period, and `not x > D` must be the exact complement of `x > D` for entries inside it
    ["modified > '2024-05-01'", "modified <= '2024-05-01 10'", "modified between '2024-04-30' and '2024-05-01 10:30'"],
    ["modified = '2024-05-01'", "modified != '2024-05-01 10:30'", "modified >= '2024-05-01 10:30:30'"],
    ["modified < '2024-05-01 10:30'", "modified not between '2024-05-01' and '2024-05-01 10'", "size > 100"],
    # extension patterns next to names that consist of nothing but the "extension" (`.env`): a condition decides the same
    # entries alone, in a conjunction, under OR and under NOT, whatever shortcut the first two allow
    ["name = '*.env'", "name like '%.txt'", "ext = 'env'"],
    ["name = '*.TXT'", "size >= 100", "name === '.env'"],
    # unquoted patterns with characters that are operators elsewhere (`|`, `&`): the word is the operand, up to the next blank
    ["name =~ abc|xyz", "size > 100", "name !=~ q|b"],
    ["ext rx txt|rs", "name =~ a&b|^a", "uid = 0"],
]


# 2024-04-30 23:59:59, 2024-05-01 00:00:00, 10:00:00, 10:29:59, 10:30:00, 10:30:30, 10:59:59, 23:59:59, 2024-05-02 00:00:00 (UTC)
MTIMES = [1714521599, 1714521600, 1714557600, 1714559399, 1714559400, 1714559430, 1714561199, 1714607999, 1714608000]


def fixed_tree(root):
    """8 truth assignments for (size>100, name has 'a', uid=0) plus boundary entries (size == literal)."""
    nodes = []
    i = 0
    for size in (50, 100, 101, 150, 99):
        for nm in ("abc", "xyz", "bar.txt", "qqq.txt", "a", "B"):
            for uid in (0, 1):
                i += 1
                if (size, uid) in ((99, 1),):
                    continue
                d = "d%d" % (i % 3)
                nodes.append({"path": "%s/%s%s" % (d, nm.split(".")[0] + str(i) if nm not in ("abc", "a") else nm + ("" if i < 3 else str(i)),
                                                   "." + nm.split(".")[1] if "." in nm else ""),
                              "kind": "file", "size": size, "owner": (uid, uid * 3), "mtime": MTIMES[i % len(MTIMES)],
                              "mode": [0o644, 0o755, 0o600, 0o640][i % 4]})
    nodes = [{"path": "d0", "kind": "dir"}, {"path": "d1", "kind": "dir"}, {"path": "d2", "kind": "dir"}] + nodes
    for lit in ("a*", "?yz", "a*c", "t?t.t?t", "a.c", "a_c", "A*"):
        nodes.append({"path": "d1/" + lit, "kind": "file", "size": 101, "owner": (0, 0), "mode": 0o644})
    for k, nm in enumerate((".env", "d0/.env", "d1/.txt", "d1/x.env", "d2/.env.txt", "d2/X.ENV", "d2/env", "d0/.TXT")):
        nodes.append({"path": nm, "kind": "file", "size": (99, 100, 101)[k % 3], "owner": (k % 2, 0), "mode": 0o644})
    nodes.append({"path": "abc", "kind": "file", "size": 100, "owner": (0, 0), "mode": 0o644})
    nodes.append({"path": "d0/abc", "kind": "file", "size": 101, "owner": (1, 5), "mode": 0o644})
    tree.materialise(root, nodes)


# ---- formulas --------------------------------------------------------------------------------

def formulas_upto(n_conn, atoms=3):
    """All formula trees with <= n_conn connectives (not/and/or) over `atoms` atoms."""
    by = {0: [("a", i) for i in range(atoms)]}
    for k in range(1, n_conn + 1):
        cur = [("not", f) for f in by[k - 1]]
        for l in range(0, k):
            r = k - 1 - l
            for f in by[l]:
                for g in by[r]:
                    cur.append(("and", f, g))
                    cur.append(("or", f, g))
        by[k] = cur
    out = []
    for k in range(0, n_conn + 1):
        out.extend(by[k])
    return out


def random_formula(rng, depth, atoms=3):
    if depth == 0 or rng.random() < 0.2:
        return ("a", rng.randrange(atoms))
    c = rng.random()
    if c < 0.3:
        return ("not", random_formula(rng, depth - 1, atoms))
    return (rng.choice(["and", "or"]), random_formula(rng, depth - 1, atoms), random_formula(rng, depth - 1, atoms))


PREC = {"or": 1, "and": 2, "not": 3, "a": 4}


def render(f, atoms, style, rng=None, parent=0, side=None):
    """style: '(' or '{' ; rng given -> redundant brackets, random keyword case, mixed bracket kinds."""
    op = f[0]
    if rng and rng.random() < 0.5:
        op_open, op_close = rng.choice([("(", ")"), ("{", "}")])
    else:
        op_open, op_close = ("(", ")") if style == "(" else ("{", "}")

    def kw(w):
        if rng:
            return rng.choice([w, w.upper(), w.capitalize()])
        return w
    if op == "a":
        s = atoms[f[1]]
        need = False
    elif op == "not":
        inner = render(f[1], atoms, style, rng, PREC["not"])
        s = kw("not") + " " + inner
        need = False
    else:
        l = render(f[1], atoms, style, rng, PREC[op], "l")
        r = render(f[2], atoms, style, rng, PREC[op], "r")
        s = "%s %s %s" % (l, kw(op), r)
        # left-assoc chains need no brackets; a right operand of the same operator is bracketed to keep the tree shape
        need = PREC[op] < parent or (PREC[op] == parent and side == "r")
    if parent == PREC["not"] and op != "a":
        # `not not A` is legal without brackets: bare in round style, bracketed in curly style, either when random
        need = not (op == "not" and (rng.random() < 0.5 if rng else style == "("))
    if need or (rng and op != "a" and rng.random() < 0.15) or (rng and op == "a" and rng.random() < 0.08):
        s = op_open + s + op_close
    return s


def evaluate(f, sets, universe):
    if f[0] == "a":
        return sets[f[1]]
    if f[0] == "not":
        return universe - evaluate(f[1], sets, universe)
    if f[0] == "and":
        return evaluate(f[1], sets, universe) & evaluate(f[2], sets, universe)
    return evaluate(f[1], sets, universe) | evaluate(f[2], sets, universe)


_FROM = ["t"]


def rows_of(w, home, cond, res):
    q = ("path from %s into list" % _FROM[0]) if cond is None else "path from %s where %s into list" % (_FROM[0], cond)
    r = runner.run([q], cwd=w, home=home)
    res.ev()
    if r.verdict != "ok" or r.rc != 0 or r.err or r.panicked:
        return None, r, q
    rows = r.rows()
    if len(rows) != len(set(rows)):
        return None, r, q
    return set(rows), r, q


def run_job(job):
    res = JobResult()
    rng = random.Random(job["seed"])
    sc = runner.new_scratch("c03")
    try:
        w = runner.work_dir(sc)
        home = runner.make_home(sc)
        root = os.path.join(w, "t")
        os.mkdir(root)
        if job["tree"] == "fixed":
            fixed_tree(root)
        else:
            nodes = tree.gen_tree(rng, max_entries=40, max_depth=4, kinds=("file", "dir", "symlink"))
            for n in nodes:
                if n["kind"] != "symlink":
                    n["owner"] = (rng.choice([0, 1]), rng.choice([0, 3, 5]))
                    n["mode"] = rng.choice([0o644, 0o755, 0o600, 0o700]) | (0o700 if n["kind"] == "dir" else 0)
            tree.materialise(root, nodes)
        # the algebra is the same whichever way the entries are reached: several roots, depth-first, a depth window, and
        # zip members (they are filtered by the same WHERE)
        for dn in ("d0", "d1", "d2"):
            os.makedirs(os.path.join(root, dn), exist_ok=True)
        if job["tree"] != "fixed":
            for nm in (".env", "d0/.txt", "d1/.ENV", "d2/q.env"):
                fp = os.path.join(root, nm)
                if not os.path.lexists(fp):
                    with open(fp, "wb") as f:
                        f.write(b"e" * rng.choice([0, 99, 100, 101, 150]))
        if job["kind"] != "exhaustive" and rng.random() < 0.25:
            # entries whose path is longer than PATH_MAX: they have attributes like any other, so A and not A split them too
            tree.make_beyond_path_max(os.path.join(root, "d2"), len("t/d2"))
            res.count("trees_with_entries_beyond_path_max")
        with zipfile.ZipFile(os.path.join(root, "d1", "pack.zip"), "w") as z:
            for nm, size in (("abc", 50), ("abc.txt", 150), ("xyz", 100), ("a", 101), ("B", 99), ("a*", 10), ("sub/abc", 500)):
                z.writestr(nm, b"z" * size)
        _FROM[0] = "t" if job["kind"] == "exhaustive" else rng.choice(["t", "t", "t archives", "t dfs", "t mindepth 2", "t/d0, t/d1 archives, t/d2", "t arc dfs"])
        if "arc" in _FROM[0] and any(c in a for a in job["atoms"] for c in ("uid", "gid", "hardlinks")):
            # columns a zip member does not have make every condition on them false, negated or not (no row, like SQL's NULL):
            # the two-valued algebra is only claimed for columns the entries have
            _FROM[0] = "t dfs"
        res.cover("from", _FROM[0])
        atoms = job["atoms"]
        universe, r, q = rows_of(w, home, None, res)
        if universe is None:
            res.inc("unfiltered query failed: %s" % r.brief())
            return res
        sets = []
        for a in atoms:
            s, r, q = rows_of(w, home, a, res)
            if s is None:
                res.viol("atom `%s` failed: status %s stderr %r" % (a, r.rc, r.err[:120]), {"query": q, "result": r.brief()})
                return res
            if not s <= universe:
                res.viol("atom `%s` returned rows outside the unfiltered result" % a, {"query": q})
                return res
            sets.append(s)
        assignments = set(tuple(x in s for s in sets) for x in universe)
        res.cover("truth_assignments_realised", "%s:%d" % (job["triple"], len(assignments)))
        if job["kind"] == "exhaustive":
            forms = formulas_upto(job["n_conn"])
            forms = forms[job["lo"]:job["hi"]]
            plan = [(f, st, None) for f in forms for st in job["styles"]]
        else:
            plan = [(random_formula(rng, rng.randint(2, 5)), "(", rng) for _ in range(job["n"])]
        for f, style, rr in plan:
            cond = render(f, atoms, style, rr)
            got, r, q = rows_of(w, home, cond, res)
            ctx = {"query": q, "atoms": atoms, "formula": repr(f), "result": r.brief()}
            if got is None:
                if r.verdict == "busy":
                    res.viol("busy loop on `%s`" % cond, ctx)
                elif r.verdict != "ok":
                    res.inc("watchdog")
                else:
                    res.viol("valid formula rejected or duplicate rows: `%s` -> status %s stderr %r" % (
                        cond, r.rc, r.err[:120]), ctx)
                continue
            exp = evaluate(f, sets, universe)
            if got != exp:
                ctx["wrongly_returned"] = sorted(got - exp)[:5]
                ctx["wrongly_omitted"] = sorted(exp - got)[:5]
                res.viol("`%s`: result differs from the set algebra over the atoms' own results (+%d/-%d of %d)" % (
                    cond, len(got - exp), len(exp - got), len(universe)), ctx)
                continue
            shape = shape_of(f)
            res.cover("formula_shapes", shape)
            if len(assignments) >= 2 and 0 < len(exp):
                res.nt("%s|%s|%s|%s" % (job["triple"], job["tree"], repr(f) if job["kind"] == "exhaustive" else shape, style if not rr else cond))
            res.count("formulas_checked")
            res.sample({"query": q, "rows": len(got), "universe": len(universe)}, cap=2)
    finally:
        runner.rm_scratch(sc)
    return res


def shape_of(f):
    if f[0] == "a":
        return "a"
    if f[0] == "not":
        return "n(" + shape_of(f[1]) + ")"
    return f[0][0] + "(" + shape_of(f[1]) + "," + shape_of(f[2]) + ")"


def main(chk):
    quick = chk.tier == "quick"
    jobs = []
    n_conn = 2 if quick else 3
    total = len(formulas_upto(n_conn))
    chunk = 100 if quick else 250
    triples = range(len(TRIPLES)) if not quick else range(0, len(TRIPLES), 2)
    for ti in (range(len(TRIPLES))):
        exh = ti in triples
        if exh:
            for lo in range(0, total, chunk):
                jobs.append({"id": "exh-%d-%d" % (ti, lo), "kind": "exhaustive", "tree": "fixed", "triple": ti,
                             "atoms": TRIPLES[ti], "n_conn": n_conn, "lo": lo, "hi": lo + chunk,
                             "styles": ["(", "{"] if (ti == 0 or not quick) else ["("], "seed": 0})
        if not quick and ti in (0, 2):
            # every formula with up to FOUR connectives for two triples (85263 formulas each)
            total4 = len(formulas_upto(4))
            for lo in range(0, total4, 1500):
                jobs.append({"id": "exh4-%d-%d" % (ti, lo), "kind": "exhaustive", "tree": "fixed", "triple": ti, "atoms": TRIPLES[ti], "n_conn": 4,
                             "lo": lo, "hi": lo + 1500, "styles": ["("], "seed": 0})
        for k in range(8 if quick else 16):
            jobs.append({"id": "rnd-%d-%d" % (ti, k), "kind": "random", "tree": "fixed" if k % 2 == 0 else "random",
                         "triple": ti, "atoms": TRIPLES[ti], "n": 40 if quick else 150,
                         "seed": job_seed(chk.seed, "C03", "%d-%d" % (ti, k))})
    chk.run_jobs(jobs, budget_s=300 if quick else 3000)
    return chk.finish(
        rule="metamorphic: rows(F) must equal F evaluated by set algebra over fselect's own rows for its atoms (universe = unfiltered rows). "
             "Exhaustive: every formula with <= %d connectives (not/and/or) over 3 atoms for %d atom triples, round and curly brackets; random: "
             "formulas of depth 2..5 with redundant brackets, mixed bracket kinds and keyword case, over one root, three roots, dfs, a depth window and zip members. Non-trivial = expected set non-empty and the "
             "atoms realise >= 2 truth assignments; distinct by (triple, tree, formula, style)." % (n_conn, len(list(triples))),
        assumptions=["atoms range over always-present columns only (size, name, ext, uid, gid, mode, hardlinks, permission booleans); with `archives` only over "
                     "columns a zip member has too (a column the entry lacks makes every condition on it false, negated or not)",
                     "an atom's own result is taken from fselect itself, so a defect in a comparison (C02) cannot raise a C03 alarm"],
        require={"formula_shapes": 12},
        exhaustive={"formulas_upto_connectives": n_conn, "formulas": total, "atom_triples": [TRIPLES[i] for i in triples],
                    "four_connectives": None if quick else {"formulas": len(formulas_upto(4)), "atom_triples": [TRIPLES[0], TRIPLES[2]]}},
    )
