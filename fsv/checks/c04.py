"""C04 - column values equal what the operating system and the file content say."""
import grp
import hashlib
import itertools
import os
import pwd
import random
import stat
import struct
import zipfile

from .. import model, runner, tree
from ..core import JobResult, job_seed

PERM_COLS = ["user_read", "user_write", "user_exec", "user_all", "group_read", "group_write", "group_exec", "group_all",
             "other_read", "other_write", "other_exec", "other_all", "suid", "sgid"]
TYPE_COLS = ["is_file", "is_dir", "is_symlink", "is_pipe", "is_char", "is_block", "is_socket"]
TYPE_CHAR = {"is_file": "-", "is_dir": "d", "is_symlink": "l", "is_pipe": "p", "is_char": "c", "is_block": "b", "is_socket": "s"}
CAP_NAMES = ["cap_chown", "cap_dac_override", "cap_dac_read_search", "cap_fowner", "cap_fsetid", "cap_kill", "cap_setgid",
             "cap_setuid", "cap_setpcap", "cap_linux_immutable", "cap_net_bind_service", "cap_net_broadcast", "cap_net_admin",
             "cap_net_raw", "cap_ipc_lock", "cap_ipc_owner", "cap_sys_module", "cap_sys_rawio", "cap_sys_chroot", "cap_sys_ptrace",
             "cap_sys_pacct", "cap_sys_admin", "cap_sys_boot", "cap_sys_nice", "cap_sys_resource", "cap_sys_time",
             "cap_sys_tty_config", "cap_mknod", "cap_lease", "cap_audit_write", "cap_audit_control", "cap_setfcap",
             "cap_mac_override", "cap_mac_admin", "cap_syslog", "cap_wake_alarm", "cap_block_suspend", "cap_audit_read",
             "cap_perfmon", "cap_bpf", "cap_checkpoint_restore"]
EXT_CLASSES = ["is_archive", "is_audio", "is_book", "is_doc", "is_font", "is_image", "is_source", "is_video"]


def b(v):
    return "true" if v else "false"


def perm_truth(mode):
    out = {}
    for c, bit in model.PERM_BOOLS.items():
        out[c] = bool(mode & bit)
    for c, bits in model.PERM_ALL.items():
        out[c] = (mode & bits) == bits
    return out


def check_mode_cells(res, ctx, label, st_mode, cells, cols):
    """cells: dict col -> printed. Judges mode string, permission booleans and the exactly-one type boolean."""
    want_mode = stat.filemode(st_mode)
    if "mode" in cells and cells["mode"] != want_mode:
        res.viol("%s: mode printed %r, ls -l notation is %r (st_mode %o)" % (label, cells["mode"], want_mode, st_mode), ctx)
        return False
    pt = perm_truth(st_mode)
    for c in PERM_COLS:
        if c in cells and cells[c] != b(pt[c]):
            res.viol("%s: %s printed %r for mode %s (%o)" % (label, c, cells[c], want_mode, st_mode), ctx)
            return False
    if all(c in cells for c in TYPE_COLS):
        trues = [c for c in TYPE_COLS if cells[c] == "true"]
        if len(trues) != 1 or TYPE_CHAR[trues[0]] != want_mode[0]:
            res.viol("%s: type booleans true = %s for an entry of type %r (%o)" % (label, trues, want_mode[0], st_mode), ctx)
            return False
    return True


def run_cols(res, w, home, cols, frm, tz="UTC", where=None, extra_ok=None):
    q = "%s from %s%s into list" % (", ".join(cols), frm, (" where " + where) if where else "")
    r = runner.run([q], cwd=w, home=home, tz=tz)
    res.ev()
    ctx = {"query": q, "result": r.brief()}
    if r.verdict != "ok":
        if r.verdict in ("busy", "blocked"):
            res.viol("`%s` %s" % (q, "spins until the CPU limit" if r.verdict == "busy" else "blocks forever (%s)" % r.err[-200:].decode("utf-8", "replace")), ctx,
                     sig=("content_column_blocks_on_fifo" if r.verdict == "blocked" and extra_ok == "fifo" else None))
        else:
            res.inc("watchdog %s on `%s`" % (r.verdict, q))
        return None, ctx
    if r.rc != 0 or r.err or r.panicked:
        res.viol("`%s`: status %s stderr %r" % (q, r.rc, r.err[:150]), ctx)
        return None, ctx
    try:
        rows = r.rows(len(cols)) if len(cols) > 1 else [(x,) for x in r.rows()]
    except ValueError as e:
        res.viol("`%s`: %s" % (q, e), ctx)
        return None, ctx
    return rows, ctx


# ---- job kinds ---------------------------------------------------------------------------------

def job_perms(res, rng, w, home, job):
    d = os.path.join(w, "perms")
    os.mkdir(d)
    modes = job["modes"]
    for m in modes:
        p = os.path.join(d, "m%04o" % m)
        if job["as_dirs"]:
            os.mkdir(p)
        else:
            open(p, "w").close()
        os.chmod(p, m)
    cols = ["name", "mode"] + PERM_COLS + TYPE_COLS
    rows, ctx = run_cols(res, w, home, cols, "perms maxdepth 1")
    if rows is None:
        return
    seen = 0
    for row in rows:
        cells = dict(zip(cols, row))
        st = os.lstat(os.path.join(d, cells["name"]))
        if not check_mode_cells(res, ctx, "perms/" + cells["name"], st.st_mode, cells, cols):
            return
        seen += 1
        res.nt("perm|%s|%04o" % ("d" if job["as_dirs"] else "f", stat.S_IMODE(st.st_mode)))
    if seen != len(modes):
        res.viol("%d rows for %d entries in the permission directory" % (seen, len(modes)), ctx)
        return
    res.count("permission_values_checked_%s" % ("dirs" if job["as_dirs"] else "files"), seen)
    res.sample({"kind": "perms", "as_dirs": job["as_dirs"], "first": list(rows[0])[:6], "n": seen}, cap=1)
    for m in modes:
        if job["as_dirs"]:
            os.chmod(os.path.join(d, "m%04o" % m), 0o700)


def content_for(rng):
    c = rng.random()
    if c < 0.1:
        return b""
    if c < 0.2:
        # the two marker bytes decide, whatever follows them: text, bytes that are no text (a loader stub, an interpreter path
        # in another encoding), nothing, no line end within the first 4 KiB
        return b"#!" + rng.choice([b"/bin/sh\necho hi\n", b"/bin/sh\necho hi\n", b"/opt/caf\xe9/bin/run\nx\n", b"\xff\xfe\x00binary\x00",
                                   b"", b"\n", b" " * 5000 + b"/bin/sh\n", b"\r\n", bytes(range(128, 256)) * 40])
    if c < 0.3:
        return b"no trailing newline"
    if c < 0.4:
        return b"\n" * rng.randint(1, 5)
    if c < 0.5:
        return bytes(rng.randrange(256) for _ in range(rng.choice([1, 2, 100, 1000])))
    if c < 0.6:
        n = rng.choice([32 * 1024 - 1, 32 * 1024, 32 * 1024 + 1, 64 * 1024 - 1, 64 * 1024, 64 * 1024 + 1])
        return (b"abcdefg\n" * (n // 8 + 1))[:n]
    if c < 0.65:
        return (b"line of text TODO here\n" * 50000)[:1024 * 1024 + rng.randrange(3)]
    if c < 0.7:
        return b"#" + b"!x" * 3
    if c < 0.78:       # words that are also column names, and digits that could be mistaken for a column's value
        return b"Size Path Name 19 Mode\n" + b"%d\n" % rng.choice([23, 24, 25, 100])
    return b"".join(b"text line %d with needle-%d\n" % (i, i % 7) for i in range(rng.choice([1, 3, 10, 200])))


def job_tree(res, rng, w, home, job):
    root = os.path.join(w, "t")
    os.mkdir(root)
    kinds = ("file", "dir", "symlink", "socket", "chr", "blk") + (("fifo",) if job.get("fifo") else ())
    nodes = tree.gen_tree(rng, max_entries=30, max_depth=4, kinds=kinds, content=content_for, special_p=0.25)
    # entries that share a name and are visited one after the other (an entry's columns are its own, whatever came before):
    # a chain same/same/same and two directories whose only child has the same name
    have = set(n["path"] for n in nodes)
    for pth, kind in (("same", "dir"), ("same/same", "dir"), ("same/same/same", "file"), ("twin1", "dir"), ("twin1/only", "file"),
                      ("twin2", "dir"), ("twin2/only", "file"), ("twin3", "dir"), ("twin3/only", "dir")):
        if pth not in have:
            nodes.append({"path": pth, "kind": kind, **({"content": content_for(rng)} if kind == "file" else {})})
    base = 1_500_000_000
    for n in nodes:
        if n["kind"] != "symlink":
            n["mode"] = rng.randrange(0, 0o10000) | (0o700 if n["kind"] == "dir" else 0)
            n["owner"] = (rng.choice([0, 1, 2, 1000, 65534, 4242, 31337]), rng.choice([0, 1, 5, 1000, 65534, 777, 31337]))
        n["mtime"] = base + rng.randrange(0, 200_000_000) + rng.choice([0, 0.25, 0.5, 0.999999])
    for rf in tree.materialise(root, nodes):
        res.inc("refused: %s" % (rf,))
    snap = tree.snapshot(root)
    by_path = {}
    tz = rng.choice(["UTC", "Europe/Berlin", "Asia/Kolkata"])
    spelled = rng.choice(["t", "./t", os.path.join(w, "t")])
    # metadata + location columns
    cols = ["path", "name", "ext", "dir", "abspath", "absdir", "size", "uid", "gid", "user", "group", "inode", "hardlinks", "blocks",
            "modified", "mode", "is_hidden", "is_empty"] + PERM_COLS + TYPE_COLS
    # with `symlinks` the search also descends into linked directories, but every entry - a link included - still reports its own
    # attributes; rows that come from behind a link are not judged here, nor is the number of rows (a directory first reached
    # through a link is listed under the link's path only - C18's business)
    trav = rng.choice(["", "", " dfs", " bfs", " dfs mindepth 1", " symlinks", " sym dfs"])
    follow = "sym" in trav
    res.cover("traversal", trav.strip() or "default")
    rows, ctx = run_cols(res, w, home, cols, (model.quote_lit(spelled) if " " in spelled else spelled) + trav, tz=tz)
    if rows is None:
        return
    absmap = {e.abs: e for e in snap}
    real_w = os.path.realpath(w)
    ok = True
    for row in rows:
        cells = dict(zip(cols, row))
        a = os.path.normpath(os.path.join(w, cells["path"]))
        e = absmap.get(a)
        if e is None:
            if follow:
                continue
            res.viol("row for unknown path %r" % cells["path"], ctx)
            return
        by_path[a] = cells
        st = e.st
        label = e.rel + " (" + e.kind + ")"
        exp = {"name": e.name, "ext": model.ext_of(e.name), "size": str(st.st_size), "uid": str(st.st_uid), "gid": str(st.st_gid),
               "inode": str(st.st_ino), "hardlinks": str(st.st_nlink), "blocks": str(st.st_blocks),
               "modified": model.fmt_dt(model.local_naive(st.st_mtime, tz)), "is_hidden": b(e.name.startswith("."))}
        for c, v in exp.items():
            if cells[c] != v:
                res.viol("%s: %s printed %r, lstat says %r" % (label, c, cells[c], v), ctx)
                ok = False
                break
        if not ok:
            return
        # owner names: ids without a passwd/group entry may print empty or the number
        for c, idv, db in (("user", st.st_uid, pwd.getpwuid), ("group", st.st_gid, grp.getgrgid)):
            try:
                nm = db(idv)[0]
                good = cells[c] == nm
            except KeyError:
                good = cells[c] in ("", str(idv))
            if not good:
                res.viol("%s: %s printed %r for id %d" % (label, c, cells[c], idv), ctx)
                return
        if e.kind == "dir":
            want_empty = b(len(os.listdir(e.abs)) == 0)
        else:
            want_empty = b(st.st_size == 0)
        if cells["is_empty"] != want_empty:
            res.viol("%s: is_empty printed %r, expected %s" % (label, cells["is_empty"], want_empty), ctx)
            return
        # location decomposition
        if cells["path"] != cells["dir"] + "/" + cells["name"] and not (cells["dir"].endswith("/") and cells["path"] == cells["dir"] + cells["name"]):
            res.viol("%s: path %r is not dir %r + '/' + name %r" % (label, cells["path"], cells["dir"], cells["name"]), ctx)
            return
        want_absdir = os.path.dirname(os.path.join(real_w, "t", e.rel))
        if cells["absdir"] != want_absdir:
            res.viol("%s: absdir printed %r, expected %r" % (label, cells["absdir"], want_absdir), ctx)
            return
        if cells["abspath"] != cells["absdir"] + "/" + cells["name"]:
            res.viol("%s: abspath %r is not absdir %r + '/' + name" % (label, cells["abspath"], cells["absdir"]), ctx)
            return
        if not check_mode_cells(res, ctx, label, st.st_mode, cells, cols):
            return
        res.cover("entry_kinds", e.kind)
        res.nt("meta|%s|%o|%s" % (e.kind, stat.S_IMODE(st.st_mode), e.name))
    if len(rows) != len(snap) and not follow:
        res.viol("%d rows for %d entries" % (len(rows), len(snap)), ctx)
        return
    res.count("metadata_rows_checked", len(rows))
    res.sample({"kind": "tree", "tz": tz, "row": dict(list(dict(zip(cols, rows[0])).items())[:10])}, cap=1)
    # content columns on regular files (and whatever else: the statement says every entry)
    needle = rng.choice(["needle-3", "TODO", "text line", "zzz-not-there", "#!", "Size", "Path", "Name", "Sha1", "Mode"])
    # the needle may be spelled like a column that the same query selects: it is still a piece of text
    ccols = ["path"] + (["size", "name", "mode"] if needle[0].isupper() and needle != "TODO" else []) + [
        "sha1", "sha256", "sha512", "sha3", "line_count", "is_shebang", "contains(%s)" % model.quote_lit(needle)]
    where = None if job.get("fifo") else "not is_pipe"
    rows, ctx = run_cols(res, w, home, ccols, "t", where=where, extra_ok="fifo" if job.get("fifo") else None)
    if rows is None:
        return
    for row in rows:
        cells = dict(zip(ccols, row))
        e = absmap.get(os.path.normpath(os.path.join(w, cells["path"])))
        if e is None or e.kind != "file":
            continue
        with open(e.abs, "rb") as f:
            data = f.read()
        exp = {"sha1": hashlib.sha1(data).hexdigest(), "sha256": hashlib.sha256(data).hexdigest(),
               "sha512": hashlib.sha512(data).hexdigest(), "sha3": hashlib.sha3_512(data).hexdigest(),
               "line_count": str(data.count(b"\n")), "is_shebang": b(data[:2] == b"#!")}
        for c, v in exp.items():
            if cells[c] != v:
                res.viol("%s (%d bytes): %s printed %r, content says %r" % (e.rel, len(data), c, cells[c][:70], v[:70]), ctx)
                return
        try:
            text = data.decode("utf-8")
            want = b(needle in text)
            if cells[ccols[-1]] != want:
                res.viol("%s: contains(%r) printed %r, content says %s" % (e.rel, needle, cells[ccols[-1]], want), ctx)
                return
        except UnicodeDecodeError:
            pass
        res.cover("content_sizes", "0" if not data else "<32K" if len(data) < 32768 else "32K-64K+1" if len(data) <= 65537 else ">=1M")
        res.nt("content|%d|%s" % (len(data), exp["sha1"][:8]))
    res.count("content_rows_checked", len(rows))
    # metadata and content columns mixed in one row (per-entry memo must be reset between entries)
    mcols = rng.sample(["line_count", "size", "mode", "is_shebang", "uid", "hardlinks", "sha1", "modified", "is_dir"], 5)
    if "size" not in mcols:
        mcols[1] = "size"
    mcols = ["path"] + mcols
    rows, ctx = run_cols(res, w, home, mcols, "t" + rng.choice(["", " dfs"]), tz=tz, where=rng.choice([None, "size >= 0", "line_count >= 0 or size >= 0"]))
    if rows is None:
        return
    for row in rows:
        cells = dict(zip(mcols, row))
        e = absmap.get(os.path.normpath(os.path.join(w, cells["path"])))
        if e is None:
            continue
        exp = {"size": str(e.st.st_size), "mode": stat.filemode(e.st.st_mode), "uid": str(e.st.st_uid), "hardlinks": str(e.st.st_nlink),
               "modified": model.fmt_dt(model.local_naive(e.st.st_mtime, tz)), "is_dir": b(e.kind == "dir")}
        for c, v in exp.items():
            if c in cells and cells[c] != v:
                res.viol("%s (%s): %s printed %r next to content columns %s, lstat says %r" % (e.rel, e.kind, c, cells[c], mcols, v), ctx)
                return
    res.count("mixed_rows_checked", len(rows))


def job_xattr(res, rng, w, home, job):
    d = os.path.join(w, "x")
    os.mkdir(d)
    truth = {}
    for i in range(12):
        p = os.path.join(d, "f%d" % i)
        if i % 5 == 4:
            os.mkdir(p)
        else:
            with open(p, "w") as f:
                f.write("x" * i)
        attrs = {}
        for k in range(rng.choice([0, 0, 1, 2, 3])):
            nm = "user." + rng.choice(["test", "comment", "a", "mime_type", "x.y"])
            val = rng.choice(["v", "hello world", "été", "42", "a" * 200, " spaced "])
            try:
                os.setxattr(p, nm, val.encode())
                attrs[nm] = val
            except OSError as e:
                res.inc("setxattr refused: %s" % e)
        truth["f%d" % i] = attrs
    probe = rng.choice(["user.test", "user.comment", "user.a", "user.none"])
    cols = ["name", "has_xattrs", "has_xattr(%s)" % probe, "xattr(%s)" % probe]
    rows, ctx = run_cols(res, w, home, cols, "x")
    if rows is None:
        return
    for name, hx, hx1, xv in rows:
        have = dict((n, os.getxattr(os.path.join(d, name), n).decode()) for n in os.listxattr(os.path.join(d, name)))
        if hx != b(bool(have)):
            res.viol("%s: has_xattrs printed %r, listxattr says %s" % (name, hx, sorted(have)), ctx)
            return
        if hx1 != b(probe in have):
            res.viol("%s: has_xattr(%s) printed %r, listxattr says %s" % (name, probe, hx1, sorted(have)), ctx)
            return
        if xv != have.get(probe, ""):
            res.viol("%s: xattr(%s) printed %r, getxattr says %r" % (name, probe, xv, have.get(probe)), ctx)
            return
        res.nt("xattr|%s|%s" % (sorted(have), probe))
    res.count("xattr_rows_checked", len(rows))
    res.cover("xattr_probe", probe)


def caps_text(eff, perm, inh):
    out = []
    for i, nm in enumerate(CAP_NAMES):
        p, h = perm >> i & 1, inh >> i & 1
        if p or h:
            out.append("%s=%s%s" % (nm, "e" if eff else "", "ip" if (p and h) else "p" if p else "i"))
    return " ".join(out)


def job_caps(res, rng, w, home, job):
    d = os.path.join(w, "caps")
    os.mkdir(d)
    truth = {}
    cases = []
    for i in job["caps"]:
        for eff, p, h in ((0, 1, 0), (1, 1, 0), (0, 0, 1), (0, 1, 1), (1, 1, 1), (1, 0, 1)):
            cases.append((eff, p << i, h << i))
    for _ in range(job.get("random_sets", 0)):
        perm = 0
        inh = 0
        for i in rng.sample(range(41), rng.randint(2, 6)):
            perm |= rng.choice([0, 1]) << i
            inh |= rng.choice([0, 1]) << i
        cases.append((rng.choice([0, 1]), perm, inh))
    cases.append(None)   # a file without capabilities
    for k, c in enumerate(cases):
        p = os.path.join(d, "c%03d" % k)
        open(p, "w").close()
        if c is None:
            truth["c%03d" % k] = None
            continue
        eff, perm, inh = c
        raw = struct.pack("<IIIII", 0x02000000 | eff, perm & 0xffffffff, inh & 0xffffffff, perm >> 32, inh >> 32)
        if k % 3 == 1:
            # revision 3 ("namespaced" capabilities, what `setcap -n <rootid>` and rootless image builds leave behind): the
            # same five words followed by the id of the namespace's root user; the kernel hands it back in this form as long
            # as that id is not 0
            raw = struct.pack("<IIIIII", 0x03000000 | eff, perm & 0xffffffff, inh & 0xffffffff, perm >> 32, inh >> 32,
                              rng.choice([1000, 65534, 100000]))
            res.count("capability_revision_3_cases")
        try:
            os.setxattr(p, "security.capability", raw)
        except OSError as e:
            res.inc("security.capability refused: %s" % e)
            os.unlink(p)
            continue
        truth["c%03d" % k] = c
    probe = CAP_NAMES[rng.choice(job["caps"])] if job["caps"] else rng.choice(CAP_NAMES)
    cols = ["name", "caps", "has_caps()", "has_cap(%s)" % probe]
    rows, ctx = run_cols(res, w, home, cols, "caps")
    if rows is None:
        return
    for name, caps, hc, hc1 in rows:
        c = truth.get(name)
        want = "" if c is None else caps_text(*c)
        if caps != want:
            res.viol("%s: caps printed %r, the security.capability words say %r" % (name, caps, want), ctx)
            return
        if hc != b(c is not None):
            res.viol("%s: has_caps() printed %r" % (name, hc), ctx)
            return
        i = CAP_NAMES.index(probe)
        want1 = b(c is not None and bool((c[1] | c[2]) >> i & 1))
        if c is not None and hc1 != want1:
            res.viol("%s: has_cap(%s) printed %r, expected %s (caps %r)" % (name, probe, hc1, want1, want), ctx)
            return
        if c is not None:
            res.nt("caps|%d|%x|%x" % c)
    res.count("capability_cases_checked", len(rows))
    res.cover("caps_probed", probe)


def job_extcfg(res, rng, w, home, job):
    d = os.path.join(w, "e")
    os.mkdir(d)
    # default lists = what fselect itself writes to a fresh config.toml
    h0 = runner.make_home(os.path.dirname(home), name="home-default")
    runner.run(["name from e into list"], cwd=w, home=h0)
    res.ev()
    try:
        import tomllib
        with open(os.path.join(h0, ".config/fselect/config.toml"), "rb") as f:
            defaults = tomllib.load(f)
    except (OSError, ImportError) as e:
        res.inc("cannot read the default configuration: %s" % e)
        return
    lists = {c: list(defaults[c]) for c in EXT_CLASSES}
    override = {}
    if job["override"]:
        for c in (EXT_CLASSES if job["override"] == "all" else [job["override"]]):
            override[c] = rng.sample([".foo", ".bar", ".txt", ".x1", ".tar.gz", ".mp3", ".rs", ".zzz"], 3)
        lists.update(override)
        cfg = "".join("%s = [%s]\n" % (c, ", ".join('"%s"' % x for x in v)) for c, v in override.items())
        hcfg = runner.make_home(os.path.dirname(home), config=cfg, name="home-cfg")
    else:
        hcfg = h0
    names = set()
    allext = sorted(set(x for v in lists.values() for x in v))
    for _ in range(60):
        stem = rng.choice(["a", "Report", "x.y", ".hid", "noext", "UP"])
        ext = rng.choice(allext + ["", ".unknown", ".TXT"])
        ext = rng.choice([ext, ext.upper(), ext.capitalize()])
        names.add(stem + ext)
    names.update([".mp3", "mp3", "a.mp3.bak", "b.tar.gz", "c.TAR.GZ", "dir.zip"])
    for nm in names:
        p = os.path.join(d, nm)
        if nm == "dir.zip":
            os.mkdir(p)
        else:
            open(p, "w").close()
    cols = ["name"] + EXT_CLASSES
    rows, ctx = run_cols(res, w, hcfg, cols, "e")
    if rows is None:
        return
    ctx["override"] = override
    for row in rows:
        cells = dict(zip(cols, row))
        low = model.ascii_lower(cells["name"])
        for c in EXT_CLASSES:
            want = b(any(low.endswith(x) for x in lists[c]))
            if cells[c] != want:
                res.viol("%s: %s printed %r, the active list %s says %s" % (cells["name"], c, cells[c], lists[c][:6], want), ctx)
                return
        res.nt("ext|%s|%s" % (job["override"], cells["name"]))
    res.count("extension_rows_checked", len(rows))
    res.cover("config_override", str(job["override"]))
    if override:
        # the same configuration handed over with -c / --config (path with upper-case letters and a blank) while $HOME holds
        # the default one: it is the active configuration, so the rows are the same
        cdir = os.path.join(w, "Conf Dir")
        os.mkdir(cdir)
        cpath = os.path.join(cdir, "My.Config.toml")
        with open(cpath, "w") as f:
            f.write(cfg)
        q = "%s from e into list" % ", ".join(cols)
        for opt in ("-c", "--config"):
            r = runner.run([opt, cpath, q], cwd=w, home=h0)
            res.ev()
            ctx2 = {"args": [opt, cpath, q], "override": override, "result": r.brief()}
            if r.verdict != "ok":
                res.inc("watchdog")
                continue
            try:
                rows2 = r.rows(len(cols))
            except ValueError:
                rows2 = None
            if r.rc != 0 or r.err or rows2 is None or sorted(rows2) != sorted(rows):
                res.viol("configuration given with `%s %s` is not the active one: status %s stderr %r, rows %s those under the same file as $HOME configuration" % (
                    opt, os.path.relpath(cpath, w), r.rc, r.err[:120], "differ from" if rows2 is not None and sorted(rows2) != sorted(rows) else "equal"), ctx2)
                continue
            res.cover("config_route", opt)


ZIP_TYPES = {"file": (stat.S_IFREG, "-"), "dir": (stat.S_IFDIR, "d"), "symlink": (stat.S_IFLNK, "l"), "fifo": (stat.S_IFIFO, "p"),
             "chr": (stat.S_IFCHR, "c"), "blk": (stat.S_IFBLK, "b"), "socket": (stat.S_IFSOCK, "s")}


def job_zipmodes(res, rng, w, home, job):
    d = os.path.join(w, "z")
    os.mkdir(d)
    truth = {}
    with zipfile.ZipFile(os.path.join(d, "m.zip"), "w") as z:
        for kind in job["kinds"]:
            fmt, _ch = ZIP_TYPES[kind]
            for perm in job["perms"]:
                name = "%s/%04o%s" % (kind, perm, "/" if kind == "dir" else "")
                zi = zipfile.ZipInfo(name, (2020, 1, 2, 3, 4, 6))
                zi.external_attr = (fmt | perm) << 16
                zi.create_system = 3
                z.writestr(zi, b"" if kind == "dir" else b"x")
                truth[name] = fmt | perm
    cols = ["name", "mode"] + PERM_COLS + TYPE_COLS
    rows, ctx = run_cols(res, w, home, cols, "z archives")
    if rows is None:
        return
    n = 0
    for row in rows:
        cells = dict(zip(cols, row))
        if not cells["name"].startswith("[m.zip] "):
            continue
        member = cells["name"][len("[m.zip] "):]
        if member not in truth:
            res.viol("unknown member row %r" % cells["name"], ctx)
            return
        if not check_mode_cells(res, ctx, "zip member " + member, truth[member], cells, cols):
            return
        n += 1
        res.nt("zipmode|%s" % member)
    if n != len(truth):
        res.viol("%d member rows for %d members" % (n, len(truth)), ctx)
        return
    res.count("zip_entry_modes_checked", n)


def job_fifo(res, rng, w, home, job):
    """Content-derived columns requested on special files: must not block (proved via /proc) or crash."""
    d = os.path.join(w, "sp")
    os.mkdir(d)
    tree.materialise(d, [{"path": "pipe", "kind": "fifo"}, {"path": "sock", "kind": "socket"}, {"path": "reg", "kind": "file", "content": b"a\nb\n"},
                         {"path": "nul", "kind": "chr", "rdev": (1, 3)}, {"path": "lnk2pipe", "kind": "symlink", "target": "pipe"}])
    for col in job["cols"]:
        rows, ctx = run_cols(res, w, home, ["name", col], "sp", extra_ok="fifo")
        if rows is None:
            continue
        cells = dict(rows)
        if col == "line_count" and cells.get("reg") != "2":
            res.viol("line_count of the regular file next to the special files printed %r" % cells.get("reg"), ctx)
            continue
        res.cover("content_columns_on_special_files", col)
        res.nt("special|%s" % col)


def job_longpath(res, rng, w, home, job):
    """Entries whose full path is longer than PATH_MAX (4096) in a directory that can still be listed: their attributes are
    their own (the OS hands them out relative to the open directory), and a condition and its negation split them."""
    seg = "n" * 180
    here = os.getcwd()
    sizes = {}
    try:
        os.chdir(w)
        os.mkdir("lp")
        os.chdir("lp")
        depth = 0
        while len("lp") + (depth + 1) * (len(seg) + 1) < 4060:       # the path as fselect spells it (relative to the cwd) is what counts
            os.mkdir(seg)
            os.chdir(seg)
            depth += 1
        for k, sz in enumerate((0, 3, 7, 100, 4097)):
            nm = "f%d-" % k + "x" * 200
            with open(nm, "wb") as f:
                f.write(b"z" * sz)
            os.chmod(nm, 0o640 if k % 2 else 0o755)
            sizes[nm] = sz
    finally:
        os.chdir(here)
    deep_dir = "lp/" + "/".join([seg] * depth)
    cols = ["path", "name", "size", "mode", "is_file", "hardlinks"]
    rows, ctx = run_cols(res, w, home, cols, "lp")
    if rows is None:
        return
    seen = {}
    for row in rows:
        c = dict(zip(cols, row))
        if c["name"] in sizes:
            seen[c["name"]] = c
            want = {"path": deep_dir + "/" + c["name"], "size": str(sizes[c["name"]]), "is_file": "true", "hardlinks": "1",
                    "mode": "-rw-r-----" if c["name"].startswith(("f1-", "f3-")) else "-rwxr-xr-x"}
            for k, v in want.items():
                if c[k] != v:
                    res.viol("entry with a %d-byte path: %s printed %r, expected %r" % (len(os.path.join(w, want["path"])), k, c[k][:80], v[:80]), ctx)
                    return
    if set(seen) != set(sizes):
        res.viol("entries beyond PATH_MAX: %d of %d listed" % (len(seen), len(sizes)), ctx)
        return
    for cond in ("size > 5", "size between 1 and 100", "is_file", "hardlinks = 1", "mode = '-rw-r-----'"):
        got = []
        for c2 in (cond, "not " + cond if " " not in cond else "not (%s)" % cond):
            r, ctx2 = run_cols(res, w, home, ["name"], "lp", where=c2)
            if r is None:
                return
            got.append(set(x[0] for x in r if x[0] in sizes))
        if got[0] & got[1] or (got[0] | got[1]) != set(sizes):
            res.viol("entries beyond PATH_MAX: `%s` and its negation do not split them (%d + %d of %d)" % (cond, len(got[0]), len(got[1]), len(sizes)), ctx2)
            return
    res.cover("entry_kinds", "path-beyond-PATH_MAX")
    res.nt("longpath|%d" % depth)
    res.count("entries_beyond_path_max", len(sizes))


def run_job(job):
    res = JobResult()
    rng = random.Random(job["seed"])
    sc = runner.new_scratch("c04")
    try:
        w = runner.work_dir(sc)
        home = runner.make_home(sc)
        {"perms": job_perms, "tree": job_tree, "xattr": job_xattr, "caps": job_caps, "extcfg": job_extcfg,
         "zipmodes": job_zipmodes, "fifo": job_fifo, "longpath": job_longpath}[job["kind"]](res, rng, w, home, job)
    finally:
        runner.rm_scratch(sc)
    return res


def main(chk):
    quick = chk.tier == "quick"
    rng = random.Random(job_seed(chk.seed, "C04", "plan"))
    jobs = []
    allm = list(range(4096))
    for lo in range(0, 4096, 512):
        jobs.append({"id": "permf%d" % lo, "kind": "perms", "seed": 0, "modes": allm[lo:lo + 512], "as_dirs": False})
    jobs.append({"id": "permd", "kind": "perms", "seed": 0, "modes": sorted(rng.sample(allm, 512)), "as_dirs": True})
    for i in range(1600 if quick else 6400):
        jobs.append({"id": "tree%d" % i, "kind": "tree", "seed": job_seed(chk.seed, "C04", "t%d" % i), "fifo": i % 2 == 0})
    for i in range(24 if quick else 96):
        jobs.append({"id": "xattr%d" % i, "kind": "xattr", "seed": job_seed(chk.seed, "C04", "x%d" % i)})
    for lo in range(0, 41, 6):
        jobs.append({"id": "caps%d" % lo, "kind": "caps", "seed": job_seed(chk.seed, "C04", "c%d" % lo), "caps": list(range(lo, min(41, lo + 6))),
                     "random_sets": 4 if quick else 40})
    for ov in [None, "all"] + EXT_CLASSES:
        jobs.append({"id": "ext-%s" % ov, "kind": "extcfg", "seed": job_seed(chk.seed, "C04", "e%s" % ov), "override": ov})
    for kind in ZIP_TYPES:
        perms = allm if not quick else sorted(set(rng.sample(allm, 500) + [0, 0o777, 0o7777, 0o4000, 0o2000, 0o1000]))
        for lo in range(0, len(perms), 1024):
            jobs.append({"id": "zip-%s-%d" % (kind, lo), "kind": "zipmodes", "seed": 0, "kinds": [kind], "perms": perms[lo:lo + 1024]})
    content_cols = ["line_count", "sha1", "sha256", "is_shebang", "contains('a')", "has_xattrs", "caps", "has_xattr(user.a)", "xattr(user.a)", "has_caps()"]
    jobs.append({"id": "longpath", "kind": "longpath", "seed": 0})
    for i in range(0, len(content_cols), 2):
        jobs.append({"id": "fifo%d" % i, "kind": "fifo", "seed": 0, "cols": content_cols[i:i + 2]})
    if not quick:
        special = [j for j in jobs if j["kind"] in ("xattr", "caps", "fifo", "zipmodes")]
        jobs += chk.shard(special + [j for j in jobs if j["kind"] == "tree"][:60], "asan", 200)
        jobs += chk.shard([j for j in jobs if j["kind"] in ("xattr", "caps") and not j.get("flavour")][:6], "valgrind", 6)
    chk.run_jobs(jobs, budget_s=420 if quick else 3000)
    return chk.finish(
        rule="(a) one directory holding ALL 4096 permission values as regular files and a 512-value sample as directories: mode string and the "
             "14 permission booleans; (b) random trees with every creatable entry kind (regular, directory, symlink incl. dangling, socket, "
             "char/block device), owners with and without passwd entries, random modes and mtimes under three time zones: size uid gid user "
             "group inode hardlinks blocks modified mode, exactly one type boolean, name/ext/dir/path/abspath/absdir/is_hidden/is_empty; "
             "(c) sha1/sha256/sha512/sha3, line_count, is_shebang, contains(s) against hashlib over contents of 0 B .. 1 MiB incl. 32/64 KiB "
             "+-1; (d) user xattrs; (e) each of the 41 capabilities x 6 flag combinations plus random sets written as raw vfs_cap_data; "
             "(f) every extension class under the default configuration, each list overridden alone and all together; (g) zip entry modes "
             "for all 7 types; (h) content-derived columns on FIFOs / sockets / devices with a blocked-forever watchdog. Non-trivial: every "
             "judged entry; distinct by (kind, mode / name / content hash).",
        assumptions=["ground truth is read back with os.lstat/listxattr/hashlib after the tree is built", "ids without a name may print empty or numeric",
                     "contains() is judged on valid UTF-8 files only; content columns of symlinks are not judged",
                     "quick tier samples 500 of the 4096 permission values per zip entry type; thorough enumerates them"],
        require={"permission_values_checked_files": 4096, "permission_values_checked_dirs": 512, "entry_kinds": 6,
                 "capability_cases_checked": 41 * 6, "config_override": 10, "zip_entry_modes_checked": 7 * 400},
        exhaustive={"permission_values_on_disk": 4096, "capabilities_x_flag_sets": "41 x 6",
                    "zip_entry_types": list(ZIP_TYPES), "extension_lists_overridden": EXT_CLASSES},
    )
