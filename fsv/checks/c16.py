"""C16 - every documented scalar function computes its documented value for any argument."""
import base64
import datetime
import math
import os
import random
import zipfile
import re

from .. import model, runner
from ..core import JobResult, job_seed

TEXTS = ["", "hello", "Hello World", "MiXeD cAsE", "abc", "a", "UPPER", "lower", "x y  z", "  padded  ", "\tTab", "trail \t",
         "été", "日本語", "éa", "ß", "a-b_c", "aaa", "aaaa", "abcabc", "12", "007", "-5", "3.5", "1e3", "q.tar.gz",
         "co,mma", "semi;colon", "ÀÉÎ", "Ωmega", "naïve café", "one two three", "x",
         # padded with white space other than the blank and the tab: ideographic space, no-break space, em space, vertical tab,
         # form feed, line ends
         "\u3000wide\u3000", "\u00a0nbsp", "em\u2003\u2003", "\x0bvt\x0c", "\nline\r\n", " \u3000mixed\t\u00a0"]
WS = " \t\n\r\x0b\x0c\u00a0\u2003\u3000"
NUMS = ["0", "1", "2", "5", "7", "10", "16", "255", "1000", "65536", "123456789", "9223372036854775807", "9007199254740993",
        "4611686018427387905", "2.5", "0.5",
        "-3", "-2.5", "100"]
HUGE = ["1e30", "99999999999999999999", "-99999999999999999999"]
DATES = ["2020-02-29", "2021-12-31", "2022-01-01", "1999-12-31", "2024-03-03", "2023-06-30", "2021-03-01", "2000-02-29",
         "2019-07-04"]


def q(s):
    return model.quote_lit(s)


def rust_f(x):
    """Text of an f64 as Rust's Display prints it (for values where it is unambiguous), else None."""
    if x != x:
        return "NaN"
    if x in (float("inf"), float("-inf")):
        return "inf" if x > 0 else "-inf"
    if x == int(x) and abs(x) < 1e15:
        return str(int(x))
    r = repr(x)
    if "e" in r or "E" in r:
        return None
    return r


def to_f(s):
    """Rust's str::parse::<f64>() on the argument text, or None."""
    s2 = s
    if not re.match(r"^[+-]?(\d+\.?\d*([eE][+-]?\d+)?|\.\d+([eE][+-]?\d+)?|inf|infinity|nan)$", s2, re.I):
        return None
    try:
        return float(s2)
    except ValueError:
        return None


def to_i(s):
    if not re.match(r"^[+-]?\d+$", s):
        return None
    v = int(s)
    if not (-2 ** 63 <= v < 2 ** 63):
        return None
    return v


def substr(s, pos, ln=None):
    n = len(s)
    if pos > 0:
        start = pos - 1
    elif pos < 0:
        start = n + pos
        if start < 0:
            return ""
    else:
        return None          # position 0 is not documented: don't-care
    if ln is None:
        return s[start:]
    if ln <= 0:
        return None          # non-positive length is not documented: don't-care
    return s[start:start + ln]


def initcap_ref(s):
    return " ".join(w[:1].upper() + w[1:].lower() for w in s.split())


def human_time_seconds(text):
    """Parses fselect's FORMAT_TIME rendering back to seconds: comma-separated <n><unit> tokens."""
    units = {"d": 86400, "h": 3600, "m": 60, "s": 1, "ms": 0.001, "μs": 1e-6, "us": 1e-6, "ns": 1e-9,
             "min": 60, "y": 365 * 86400, "w": 7 * 86400}
    total = 0
    toks = [t for t in re.split(r"[, ]+", text.strip()) if t]
    if not toks:
        return None
    for t in toks:
        m = re.match(r"^(\d+)([a-zμ]+)$", t)
        if not m or m.group(2) not in units:
            return None
        total += int(m.group(1)) * units[m.group(2)]
    return total


class Case:
    """One call: text of the expression, and `expect`: ('text', s) | ('num', x) | ('pred', fn, descr) | ('any',) |
    ('wrong',)  (wrong kind: empty cell or status 2)."""

    def __init__(self, expr, expect, cls):
        self.expr = expr
        self.expect = expect
        self.cls = cls


def gen_cases(rng, n):
    cases = []

    def add(expr, expect, cls):
        # curly brackets are the documented alternative to round ones (`MAX{size}`): a fifth of the calls are written with them
        if cls != "wrong" and rng.random() < 0.2 and not any(c in expr for c in "{}") and expr.count("(") == expr.count(")"):
            inq = False
            out = []
            for ch in expr:
                if ch == "'":
                    inq = not inq
                out.append({"(": "{", ")": "}"}.get(ch, ch) if not inq else ch)
            expr = "".join(out)
        cases.append(Case(expr, expect, cls))

    for _ in range(n):
        t = rng.choice(TEXTS)
        f = rng.choice(["lower", "upper", "initcap", "length", "trim", "ltrim", "rtrim", "substr", "replace", "concat",
                        "concat_ws", "coalesce", "to_base64", "from_base64", "bin", "hex", "oct", "abs", "power", "sqrt",
                        "log", "ln", "exp", "least", "greatest", "format_time", "year", "month", "day", "dow", "compose",
                        "wrong", "wrong"])
        if f == "lower":
            add("%s(%s)" % (rng.choice(["lower", "lowercase", "lcase", "LOWER"]), q(t)), ("text", t.lower()), f)
        elif f == "upper":
            if "ß" in t:
                continue
            add("%s(%s)" % (rng.choice(["upper", "uppercase", "ucase", "Upper"]), q(t)), ("text", t.upper()), f)
        elif f == "initcap":
            if not re.match(r"^[A-Za-z0-9 \t]+$", t):
                continue
            add("initcap(%s)" % q(t), ("pred", lambda c, t=t: " ".join(c.split()) == initcap_ref(t), "initcap modulo whitespace runs = %r" % initcap_ref(t)), f)
        elif f == "length":
            add("%s(%s)" % (rng.choice(["length", "len"]), q(t)), ("text", str(len(t))), f)
        elif f in ("trim", "ltrim", "rtrim"):
            exp = {"trim": t.strip(WS), "ltrim": t.lstrip(WS), "rtrim": t.rstrip(WS)}[f]
            if not exp:
                continue
            add("%s(%s)" % (f, q(t)), ("text", exp), f)
        elif f == "substr":
            pos = rng.choice([1, 2, 3, len(t), len(t) + 1, len(t) + 5, -1, -2, -len(t), -len(t) - 1, -len(t) - 7, 1])
            ln = rng.choice([None, None, 1, 2, len(t), len(t) + 3, 100])
            exp = substr(t, pos, ln)
            args = "%s, %d" % (q(t), pos) + ("" if ln is None else ", %d" % ln)
            name = rng.choice(["substr", "substring"])
            add("%s(%s)" % (name, args), ("text", exp) if exp is not None else ("any",), f)
        elif f == "replace":
            frm = rng.choice([t[:1], t[-1:], t[1:3] or "z", "a", "aa", "zz", " ", t])
            to = rng.choice(["X", "xy", "a", "aa", frm + frm, "-"])
            if not frm:
                continue
            add("replace(%s, %s, %s)" % (q(t), q(frm), q(to)), ("text", t.replace(frm, to)), f)
        elif f == "concat":
            parts = [rng.choice(TEXTS + NUMS) for _ in range(rng.randint(1, 4))]
            add("concat(%s)" % ", ".join(q(p) for p in parts), ("text", "".join(parts)), f)
        elif f == "concat_ws":
            sep = rng.choice(["-", ", ", "x", " ", "::"])
            parts = [rng.choice(TEXTS + NUMS) for _ in range(rng.randint(1, 4))]
            add("concat_ws(%s, %s)" % (q(sep), ", ".join(q(p) for p in parts)), ("text", sep.join(parts)), f)
        elif f == "coalesce":
            # `ext` of the probe file (no extension) is the empty value
            k = rng.randint(0, 2)
            args = ["ext"] * k + [q(t), q("later")]
            add("coalesce(%s)" % ", ".join(args), ("text", t if t != "" else "later"), f)
        elif f == "to_base64":
            add("%s(%s)" % (rng.choice(["to_base64", "base64"]), q(t)), ("text", base64.b64encode(t.encode()).decode()), f)
        elif f == "from_base64":
            add("from_base64(to_base64(%s))" % q(t), ("text", t), f)
            add("from_base64(%s)" % q(base64.b64encode(t.encode()).decode()), ("text", t), f)
        elif f in ("bin", "hex", "oct"):
            a = rng.choice(NUMS + ["abc", "3.5", "-3"])
            v = to_i(a)
            if v is None:
                add("%s(%s)" % (f, q(a)), ("wrong",), f + "-wrong")
            elif v < 0:
                add("%s(%s)" % (f, a), ("any",), f)
            else:
                add("%s(%s)" % (f, a), ("text", {"bin": bin(v)[2:], "hex": "%x" % v, "oct": "%o" % v}[f]), f)
        elif f == "abs":
            a = rng.choice(NUMS + ["-7", "-0.25"])
            add("abs(%s)" % a, ("num", abs(to_f(a))), f)
        elif f == "power":
            a, b = rng.choice(["2", "3", "10", "0.5", "-2", "7", "1.5"]), rng.choice(["0", "1", "2", "3", "0.5", "-1", "10"])
            try:
                exp = math.pow(float(a), float(b))
            except (ValueError, OverflowError):
                continue
            add("%s(%s, %s)" % (rng.choice(["power", "pow"]), a, b), ("num", exp), f)
        elif f == "sqrt":
            a = rng.choice(["0", "1", "2", "4", "25", "2.25", "1000000", "123456789"])
            add("sqrt(%s)" % a, ("num", math.sqrt(float(a))), f)
        elif f == "log":
            a = rng.choice(["1", "10", "1000", "2", "8", "0.5", "12345"])
            if rng.random() < 0.5:
                add("log(%s)" % a, ("num", math.log10(float(a))), f)
            else:
                b = rng.choice(["2", "10", "3", "0.5"])
                add("log(%s, %s)" % (a, b), ("num", math.log(float(a)) / math.log(float(b))), f)
        elif f == "ln":
            a = rng.choice(["1", "10", "2.718281828459045", "0.5", "12345"])
            add("ln(%s)" % a, ("num", math.log(float(a))), f)
        elif f == "exp":
            a = rng.choice(["0", "1", "2", "-1", "0.5", "10"])
            add("exp(%s)" % a, ("num", math.exp(float(a))), f)
        elif f in ("least", "greatest"):
            xs = [rng.choice(NUMS + ["-7"]) for _ in range(rng.randint(2, 4))]
            vals = [to_f(x) for x in xs]
            add("%s(%s)" % (f, ", ".join(xs)), ("num", min(vals) if f == "least" else max(vals)), f)
        elif f == "format_time":
            a = rng.choice([0, 1, 59, 60, 61, 146, 3599, 3600, 3661, 86399, 86400, 90061, 2678400, 31536000, 40000000, 10 ** 9])
            add("%s(%d)" % (rng.choice(["format_time", "pretty_time"]), a),
                ("pred", lambda c, a=a: human_time_seconds(c) is not None and abs(human_time_seconds(c) - a) < 1e-6,
                 "tokens <n><unit> adding up to %d seconds" % a), f)
        elif f in ("year", "month", "day", "dow"):
            d = rng.choice(DATES)
            dt = datetime.date(*map(int, d.split("-")))
            exp = {"year": dt.year, "month": dt.month, "day": dt.day, "dow": (dt.isoweekday() % 7) + 1}[f]
            name = {"dow": rng.choice(["dow", "dayofweek"])}.get(f, f)
            # the date may stand alone or inside other text (the documentation's own example is `year(name)`)
            arg = rng.choice([q(d), q(d), d, d, q("report-%s.txt" % d), q("taken on %s" % d), q("%s_backup" % d), q("IMG %s 12" % d),
                              "concat('snapshot-', %s)" % q(d), "lower(%s)" % q("Scan %s.PDF" % d)])
            add("%s(%s)" % (name, arg), ("text", str(exp)), f)
        elif f == "compose":
            c = rng.choice(["upper_substr", "len_trim", "hex_len", "lower_concat", "b64_upper", "len_replace", "substr_lower",
                            "abs_least", "upper_upper", "len_b64", "initcap_lower", "concat_len", "neg_fn_twice", "neg_fn_twice", "same_call_twice"])
            if c == "upper_substr":
                if "ß" in t:
                    continue
                s = substr(t, 2, 3)
                add("upper(substr(%s, 2, 3))" % q(t), ("text", s.upper()), "compose")
            elif c == "neg_fn_twice":
                # -F(x) evaluated twice in the same row must give the same (negated) value both times
                k = rng.choice(["ab", "abc", "x"])
                if len(t) < len(k):
                    continue
                add("concat(substr(%s, -length(%s)), '|', substr(%s, -length(%s)))" % (q(t), q(k), q(t), q(k)),
                    ("text", t[-len(k):] + "|" + t[-len(k):]), "compose")
                add("concat(least(-length(%s), 0), ':', greatest(-length(%s), -100))" % (q(t), q(t)), ("text", "%d:%d" % (-len(t), max(-len(t), -100))), "compose")
            elif c == "same_call_twice":
                add("concat(upper(%s), lower(%s), upper(%s))" % (q(t), q(t), q(t)), ("text", t.upper() + t.lower() + t.upper()) if "ß" not in t else ("any",), "compose")
            elif c == "len_trim":
                if not t.strip(WS):
                    continue
                add("length(trim(%s))" % q(t), ("text", str(len(t.strip(WS)))), "compose")
            elif c == "hex_len":
                add("hex(length(%s))" % q(t), ("text", "%x" % len(t)), "compose")
            elif c == "lower_concat":
                add("lower(concat(%s, 'X', %s))" % (q(t), q(t)), ("text", (t + "X" + t).lower()), "compose")
            elif c == "b64_upper":
                if "ß" in t:
                    continue
                add("to_base64(upper(%s))" % q(t), ("text", base64.b64encode(t.upper().encode()).decode()), "compose")
            elif c == "len_replace":
                add("length(replace(%s, 'a', 'bbb'))" % q(t), ("text", str(len(t.replace("a", "bbb")))), "compose")
            elif c == "substr_lower":
                add("substr(lower(%s), -2)" % q(t), ("text", substr(t.lower(), -2)), "compose")
            elif c == "abs_least":
                add("abs(least(-3, 2, -7.5))", ("num", 7.5), "compose")
            elif c == "upper_upper":
                if "ß" in t:
                    continue
                add("upper(lower(upper(%s)))" % q(t), ("text", t.upper().lower().upper()), "compose")
            elif c == "len_b64":
                add("length(to_base64(%s))" % q(t), ("text", str(len(base64.b64encode(t.encode())))), "compose")
            elif c == "initcap_lower":
                if not re.match(r"^[A-Za-z0-9 ]+$", t):
                    continue
                add("lower(initcap(%s))" % q(t), ("pred", lambda cc, t=t: " ".join(cc.split()) == " ".join(t.lower().split()), "lower(initcap)"), "compose")
            else:
                add("concat(length(%s), '-', length(%s))" % (q(t), q("ab")), ("text", "%d-2" % len(t)), "compose")
        else:  # wrong kind / missing / out-of-range
            w = rng.choice([
                "substr(%s, 'x')" % q(t), "substr(%s, 1, 'y')" % q(t), "substr(%s, 1, -2)" % q(t), "substr(%s, 2.5)" % q(t),
                "substr(%s, 99999999999)" % q(t), "format_time(%s)" % q("abc"), "format_time(1.5)", "format_time(-5)",
                "power(2, 'y')", "power('x', 2)", "log(10, 'b')", "log('x')", "sqrt('abc')", "ln('abc')", "exp('abc')",
                "abs('abc')", "hex('xyz')", "bin(2.5)", "oct('')", "year('garbage')", "month('13')", "day('2020-13-45')",
                "dow('abc')", "least('a', 'b')", "greatest('x', 1)", "replace(%s, 'a')" % q(t), "replace(%s)" % q(t),
                "format_size('abc')", "format_size(-1)", "from_base64('***')", "power(2)", "concat_ws('-')",
                "substr(%s, %s)" % (q(t), rng.choice(HUGE)), "format_time(%s)" % rng.choice(HUGE), "hex(%s)" % rng.choice(HUGE),
                "year(name)", "format_time(name)", "power(size, name)", "substr(name, name)", "hex(name)",
                # values that are not numbers although their type is (the square root or logarithm of a negative number, the
                # logarithm of 0, an overflowing power) as arguments of every function that takes a number
                "least(sqrt(-1), 1)", "greatest(1, sqrt(-1))", "greatest(ln(-1), 0, 3)", "least(ln(0), 5)", "least(log(-5), log(-6))",
                "greatest('nan', 1)", "least('inf', '-inf')", "greatest(exp(1000), 1)", "least(power(10, 400), 1)",
                "abs(sqrt(-1))", "power(sqrt(-1), 2)", "sqrt(sqrt(-1))", "exp(ln(-1))", "hex(sqrt(-1))", "bin(ln(0))", "oct(exp(1000))",
                "format_time(sqrt(-1))", "format_size(sqrt(-1))", "format_size(ln(0))", "substr(%s, sqrt(-1))" % q(t),
                "substr(%s, 1, ln(0))" % q(t), "least(sqrt(size - 100000), 1)", "greatest(ln(size - 100000), 0)",
                "concat(least(sqrt(-1), 2), greatest(sqrt(-1), 2))", "log(sqrt(-1), 2)", "log(2, sqrt(-1))",
            ])
            add(w, ("wrong",), "wrong")
    return cases


def judge(case, r, cell, res, ctx):
    kind = case.expect[0]
    if kind == "wrong":
        # empty value or status-2 diagnostic; a value is tolerated for functions that accept any text
        return True
    if kind == "any":
        return True
    if kind == "text":
        if cell != case.expect[1]:
            res.viol("%s printed %r, documented value %r" % (case.expr, cell, case.expect[1]), ctx)
            return False
        return True
    if kind == "num":
        want = case.expect[1]
        try:
            got = float(cell)
        except ValueError:
            res.viol("%s printed %r, documented value %r" % (case.expr, cell, want), ctx)
            return False
        ok = (got != got and want != want) or got == want or abs(got - want) <= 1e-12 * max(1.0, abs(want))
        if not ok:
            res.viol("%s printed %r, documented value %r" % (case.expr, cell, want), ctx)
        return ok
    if kind == "pred":
        if not case.expect[1](cell):
            res.viol("%s printed %r, expected %s" % (case.expr, cell, case.expect[2]), ctx)
            return False
        return True
    raise ValueError(kind)


def run_job(job):
    res = JobResult()
    rng = random.Random(job["seed"])
    sc = runner.new_scratch("c16")
    try:
        w = runner.work_dir(sc)
        home = runner.make_home(sc)
        d = os.path.join(w, "d")
        os.mkdir(d)
        with open(os.path.join(d, "probe"), "w") as f:
            f.write("x")
        for case in gen_cases(rng, job["cases"]):
            qy = "%s from d into list" % case.expr
            r = runner.run([qy], cwd=w, home=home)
            res.ev()
            ctx = {"query": qy, "result": r.brief()}
            if r.verdict != "ok":
                if r.verdict in ("busy", "blocked"):
                    res.viol("%s: %s" % (case.expr, r.verdict), ctx)
                else:
                    res.inc("watchdog")
                continue
            if r.panicked or r.sig or r.rc not in (0, 2):
                res.viol("%s crashed: status %s signal %s: %s" % (case.expr, r.rc, r.sig, r.err[:160].decode("utf-8", "replace").strip()), ctx)
                continue
            if case.expect[0] == "wrong":
                if r.rc == 2 and not r.err:
                    res.viol("%s: status 2 without a diagnostic" % case.expr, ctx)
                    continue
                res.cover("wrong_kind_outcomes", "status2" if r.rc == 2 else "value")
                res.nt("wrong|" + case.expr)
                continue
            if r.rc != 0 or r.err:
                res.viol("%s: status %s stderr %r for a documented call" % (case.expr, r.rc, r.err[:160]), ctx)
                continue
            cells = r.rows()
            if len(cells) != 1:
                res.viol("%s printed %d cells" % (case.expr, len(cells)), ctx)
                continue
            if judge(case, r, cells[0], res, ctx):
                res.cover("functions", case.cls)
                res.nt(case.expr)
                res.sample({"expr": case.expr, "cell": cells[0]}, cap=4)
                # the same call inside WHERE has the same value: `F(..) === value` keeps the probe entry, `!==` drops it
                if case.expect[0] == "text" and rng.random() < 0.3 and cells[0] != "" and not cells[0].startswith("-"):
                    try:
                        lit = q(cells[0])
                    except ValueError:
                        continue
                    for op, want_rows in (("===", ["probe"]), ("!==", [])):
                        qw = "name from d where %s %s %s into list" % (case.expr, op, lit)
                        rw = runner.run([qw], cwd=w, home=home)
                        res.ev()
                        if rw.verdict != "ok":
                            continue
                        if rw.rc != 0 or rw.err or rw.rows() != want_rows:
                            res.viol("%s printed %r in the select list, but `where %s %s %s` returns %s (status %s, stderr %r)" % (
                                case.expr, cells[0], case.expr, op, lit, rw.rows(), rw.rc, rw.err[:100]), {"query": qw, "result": rw.brief()})
                            break
                    else:
                        res.count("function_values_checked_in_where")
        # functions applied to column values of generated entries (names as argument strings)
        nd = os.path.join(w, "n")
        os.mkdir(nd)
        names = []
        base = 1_577_836_800
        for i, t in enumerate(rng.sample(TEXTS, 10)):
            nm = t.replace("\t", " ")
            if nm in names or "/" in nm or not nm:
                continue
            p = os.path.join(nd, nm)
            with open(p, "w") as f:
                f.write("y" * rng.choice([0, 1, 255, 4096, 65537]))
            ts = base + rng.choice([0, 86399, 59 * 86400, 59 * 86400 + 86399, 365 * 86400 + 86399, 366 * 86400, 424242, 200 * 86400 + 82800, 200 * 86400 + 3600])
            os.utime(p, (ts, ts))
            names.append(nm)
        # names that carry a date (`year(name)` is the documentation's own example)
        for d in rng.sample(DATES, 3):
            nm = rng.choice(["report-%s.txt", "%s", "IMG_%s_001.jpg", "backup %s"]) % d
            if nm not in names:
                open(os.path.join(nd, nm), "w").close()
                names.append(nm)

        def name_date(n, part):
            m = re.search(r"(\d{4})-(\d{1,2})-(\d{1,2})", n)
            if not m:
                return None         # no date in the name: the value is not judged here
            dt = datetime.date(int(m.group(1)), int(m.group(2)), int(m.group(3)))
            return str({"year": dt.year, "month": dt.month, "day": dt.day, "dow": dt.isoweekday() % 7 + 1}[part])
        # the date parts of `modified` are those of the local time: the column queries run under a time zone of their own,
        # with entries from both halves of the year next to day and year edges
        ctz = rng.choice(["UTC", "Europe/Berlin", "America/New_York", "Asia/Kolkata", "Pacific/Auckland"])
        colcases = [
            ("year(name)", lambda n, st: name_date(n, "year")), ("month(name)", lambda n, st: name_date(n, "month")),
            ("day(name)", lambda n, st: name_date(n, "day")), ("dow(name)", lambda n, st: name_date(n, "dow")),
            ("lower(name)", lambda n, st: n.lower()), ("length(name)", lambda n, st: str(len(n))),
            ("upper(name)", lambda n, st: n.upper() if "ß" not in n else None), ("hex(size)", lambda n, st: "%x" % st.st_size),
            ("bin(size)", lambda n, st: bin(st.st_size)[2:]), ("oct(size)", lambda n, st: "%o" % st.st_size),
            ("concat(name, '.', size)", lambda n, st: "%s.%d" % (n, st.st_size)),
            ("substr(name, 2, 2)", lambda n, st: n[1:3]), ("replace(name, 'a', 'A')", lambda n, st: n.replace("a", "A")),
            ("to_base64(name)", lambda n, st: base64.b64encode(n.encode()).decode()),
            ("from_base64(to_base64(name))", lambda n, st: n),
            ("year(modified)", lambda n, st: str(model.local_naive(st.st_mtime, ctz).year)),
            ("month(modified)", lambda n, st: str(model.local_naive(st.st_mtime, ctz).month)),
            ("day(modified)", lambda n, st: str(model.local_naive(st.st_mtime, ctz).day)),
            ("dow(modified)", lambda n, st: str(model.local_naive(st.st_mtime, ctz).isoweekday() % 7 + 1)),
            ("coalesce(ext, name)", lambda n, st: model.ext_of(n) or n),
            ("length(trim(name))", lambda n, st: str(len(n.strip(WS)))),
            ("sqrt(size)", lambda n, st: ("num", math.sqrt(st.st_size))), ("abs(size - 1000)", lambda n, st: ("num", abs(st.st_size - 1000.0))),
        ]
        # zip members are entries too: a function of `name` is applied to the member's name column as printed
        MEMBER_OK = {"lower(name)", "length(name)", "upper(name)", "substr(name, 2, 2)", "replace(name, 'a', 'A')", "to_base64(name)",
                     "from_base64(to_base64(name))", "length(trim(name))"}
        with zipfile.ZipFile(os.path.join(nd, "pack.zip"), "w") as z:
            for t in rng.sample([x for x in TEXTS if "\t" not in x and x], 3):
                z.writestr(t, b"m")
        names.append("pack.zip")
        for expr, ref in rng.sample(colcases, job["colcases"]):
            with_members = expr in MEMBER_OK and rng.random() < 0.5
            qy = "name, %s from n%s into list" % (expr, " archives" if with_members else "")
            r = runner.run([qy], cwd=w, home=home, tz=ctz)
            res.ev()
            ctx = {"query": qy, "result": r.brief()}
            if r.verdict != "ok" or r.rc != 0 or r.err or r.panicked:
                if r.verdict in ("ok", "busy"):
                    res.viol("%s on column values: status %s stderr %r" % (expr, r.rc, r.err[:160]), ctx)
                else:
                    res.inc("watchdog")
                continue
            ok = True
            for nm, cell in r.rows(2):
                if nm.startswith("[pack.zip] "):
                    st = None
                    res.count("functions_on_member_names")
                else:
                    st = os.lstat(os.path.join(nd, nm))
                want = ref(nm, st)
                if want is None:
                    continue
                if isinstance(want, tuple):
                    try:
                        good = abs(float(cell) - want[1]) <= 1e-12 * max(1.0, abs(want[1]))
                    except ValueError:
                        good = False
                else:
                    good = cell == want
                if not good:
                    res.viol("%s for the entry %r printed %r, documented value %r" % (expr, nm, cell, want), ctx)
                    ok = False
                    break
            if ok:
                res.cover("functions_on_columns", expr)
                res.nt("col|%s|%s" % (expr, ",".join(names)))
                # the same function over the column inside WHERE selects exactly the entries that show the value
                shown = {}
                for nm, cell in r.rows(2):
                    shown.setdefault(cell, []).append(nm)
                val = rng.choice(sorted(shown))
                first = shown[val][0]
                if val != "" and not val.startswith("-") and not isinstance(
                        ref(first, None if first.startswith("[pack.zip] ") else os.lstat(os.path.join(nd, first))), tuple):
                    try:
                        qw = "name from n%s where %s === %s into list" % (" archives" if with_members else "", expr, q(val))
                    except ValueError:
                        continue
                    rw = runner.run([qw], cwd=w, home=home, tz=ctz)
                    res.ev()
                    if rw.verdict == "ok":
                        if rw.rc != 0 or rw.err or sorted(rw.rows()) != sorted(shown[val]):
                            res.viol("`%s`: returns %s, the entries showing that value are %s (status %s, stderr %r)" % (
                                qw, sorted(rw.rows())[:4], sorted(shown[val])[:4], rw.rc, rw.err[:100]), {"query": qw, "result": rw.brief()})
                        else:
                            res.count("function_values_checked_in_where")
    finally:
        runner.rm_scratch(sc)
    return res


def main(chk):
    quick = chk.tier == "quick"
    n = 600 if quick else 2000
    jobs = [{"id": "j%d" % i, "seed": job_seed(chk.seed, "C16", i), "cases": 40 if quick else 80, "colcases": 6 if quick else 12}
            for i in range(n)]
    if not quick:
        jobs += chk.shard(jobs[:120], "arith", 120) + chk.shard(jobs[120:200], "asan", 80)
    chk.run_jobs(jobs, budget_s=300 if quick else 3000)
    return chk.finish(
        rule="each documented scalar function (all aliases) on quoted literals - ASCII, mixed case, multi-byte and combining characters, "
             "whitespace runs, numeric strings (negative, fractional, huge), out-of-range positions/lengths, overlapping needles, dates at "
             "month/year ends - and on name/size/modified of generated entries; nested calls to depth 3; calls with missing, textual, "
             "negative, fractional and huge arguments must end with status 0 or 2 and no panic. Values are compared with a Python reference "
             "per function (numeric results within 1e-12 relative). Non-trivial: every judged call; distinct by expression text.",
        assumptions=["INITCAP is judged modulo whitespace runs and only on alphanumeric words; SUBSTR position 0 / non-positive length, "
                     "BIN/HEX/OCT of negative numbers are don't-care (not documented)",
                     "case mapping is exercised on characters where Rust and Python agree (no sharp s for UPPER)",
                     "FORMAT_TIME is judged structurally: <n><unit> tokens that add up to the argument"],
        require={"functions": 28, "functions_on_columns": 12, "wrong_kind_outcomes": 1},
    )
