"""C02 - WHERE comparisons mean what the documentation says, for every entry."""
import datetime
import os
import random

from .. import model, runner, tree
from ..core import JobResult, job_seed

SPECIAL_NAMES = ["size", "name", "bin", "lower", "ext", "path", "x.bin", "y.size", "z.name", "w.lower", "v.ext",
                 "uid", "mode", "k.hex", "len.length", "modified", "true", "1", "0", "123", "5", "is_dir"]
BOOL_COLS = ["is_dir", "is_file", "is_symlink", "is_hidden", "is_empty", "user_read", "user_write", "user_exec",
             "user_all", "group_read", "group_write", "group_exec", "group_all", "other_read", "other_write",
             "other_exec", "other_all", "suid", "sgid", "is_pipe", "is_socket", "is_char", "is_block"]
NUM_COLS = ["size", "uid", "gid", "hardlinks", "line_count", "length(name)", "inode", "blocks"]
TEXT_COLS = ["name", "path", "ext", "dir", "mode", "abspath", "absdir"]
EXT_BOOLS = ["is_archive", "is_audio", "is_book", "is_doc", "is_font", "is_image", "is_source", "is_video"]
NUM_OPS = ["=", "==", "eq", "!=", "<>", "ne", "===", "!==", ">", "gt", ">=", "gte", "ge", "<", "lt", "<=", "lte", "le"]
TEXT_OPS = ["=", "==", "eq", "!=", "<>", "ne", "===", "!==", "=~", "~=", "regexp", "rx", "!=~", "!~=", "like",
            "not like"]
BOOL_OPS = ["=", "==", "eq", "!=", "<>", "ne", "===", "!==", ">", ">=", "<", "<=", "gt", "gte", "lt", "lte", "eeq", "ene"]
DATE_OPS = ["=", "!=", "<", "<=", ">", ">=", "===", "!==", "eq", "ne", "gt", "lt", "gte", "lte"]


def build_tree(rng, root):
    nodes = tree.gen_tree(rng, max_entries=35, max_depth=4, kinds=("file", "dir", "symlink"), odd=0.2,
                          content=lambda r: gen_content(r))
    used = set(n["path"] for n in nodes)
    dirs = [""] + [n["path"] for n in nodes if n["kind"] == "dir"]
    for nm in rng.sample(SPECIAL_NAMES, rng.randint(4, 9)):
        d = rng.choice(dirs)
        p = nm if not d else d + "/" + nm
        if p not in used:
            used.add(p)
            nodes.append({"path": p, "kind": "file", "content": gen_content(rng)})
    for k, size in enumerate(rng.sample([32768, 32769, 40000, 65536, 70001, 100000], 2)):
        body = (b"ab\n" * (size // 3 + 1))[:size]
        nodes.append({"path": "big%d.dat" % k, "kind": "file", "content": body})
    base = 1_600_000_000
    for n in nodes:
        if n["kind"] != "symlink":
            n["mode"] = rng.choice([0o644, 0o600, 0o755, 0o700, 0o4755, 0o2750, 0o666, 0o444, 0o711, 0o1777,
                                    rng.randrange(0, 0o10000) | (0o700 if n["kind"] == "dir" else 0)])
            if n["kind"] == "dir":
                n["mode"] |= 0o700
            n["owner"] = (rng.choice([0, 0, 1, 2, 1000, 65534, 4242]), rng.choice([0, 0, 1, 5, 1000, 65534, 777]))
        n["mtime"] = base + rng.choice([0, 1, 59, 60, 3599, 3600, 86399, 86400, 86401, 2 * 86400,
                                        rng.randrange(0, 40 * 86400)]) + rng.choice([0, 0, 0.5, 0.999, 0.000001]) + rng.choice([0, 0, 182 * 86400])
    tree.materialise(root, nodes)
    # a few hard links so that `hardlinks` varies on files
    files = [n for n in nodes if n["kind"] == "file"]
    for k in range(min(3, len(files))):
        src = rng.choice(files)
        try:
            os.link(os.path.join(root, src["path"]), os.path.join(root, "hl%d" % k))
        except OSError:
            pass
    return nodes


def gen_content(rng):
    c = rng.random()
    if c < 0.2:
        return b""
    if c < 0.3:
        return b"no newline"
    lines = rng.choice([1, 2, 3, 5, 9, 10, 11, 50, 99, 100, 101])
    return b"".join(b"line %d\n" % i for i in range(lines)) + (b"tail" if rng.random() < 0.3 else b"")


def gen_condition(rng, snap, prefix, tz="UTC"):
    """Returns (condition text, predicate(entry) -> True/False/UNDEF, coverage key)."""
    kind = rng.choice(["num", "num", "text", "text", "bool", "date", "between", "colcol", "quoted"])
    if kind == "num":
        col = rng.choice(NUM_COLS)
        vals = sorted(set(v[1] for v in (model.col_value(e, col, prefix) for e in snap) if v is not model.UNDEF))
        base = rng.choice(vals) if vals and rng.random() < 0.8 else rng.randrange(0, 5000)
        lit = base + rng.choice([-1, 0, 0, 1])
        if rng.random() < 0.1:
            lit = rng.choice([-1, -5, 0])
        op = rng.choice(NUM_OPS)
        littext = str(lit)
        if col == "size" and lit > 0 and lit % 1024 == 0 and rng.random() < 0.5:
            littext = "%dk" % (lit // 1024)
        elif rng.random() < 0.15 and lit >= 0:
            littext = "'%d'" % lit

        def pred(e, col=col, op=op, lit=lit):
            v = model.col_value(e, col, prefix)
            return v if v is model.UNDEF else model.compare("int", op, v[1], lit)
        return "%s %s %s" % (col, op, littext), pred, ("int", model.canon_op(op), "neg" if lit < 0 else "nonneg")
    if kind == "text":
        col = rng.choice(TEXT_COLS)
        vals = sorted(set(model.col_value(e, col, prefix)[1] for e in snap))
        v = rng.choice(vals)
        op = rng.choice(TEXT_OPS)
        c = model.canon_op(op)
        if c in ("=~", "!=~"):
            frag = v[rng.randrange(0, max(1, len(v))):][:rng.randint(1, 4)] if v else ""
            lit = rng.choice(["^" + model.rx_escape(v) + "$", model.rx_escape(frag) or "^$", "^" + model.rx_escape(v[:2]),
                              model.rx_escape(v[-2:]) + "$"])
        elif c in ("like", "notlike"):
            lit = rng.choice([v, v[:2] + "%", "%" + v[-2:], "_" + v[1:] if v else "%", "%"])
            if any(ch in lit for ch in "?+{}|\\"):
                lit = v if not any(ch in v for ch in "?+{}|\\%_") else "%"
        elif c in ("=", "!="):
            lit = rng.choice([v, v, v[:2] + "*", "*" + v[-2:], "?" + v[1:] if v else "*", v.upper(), v + "x"])
            if model.is_glob(lit) and any(ch in lit for ch in "+{}|\\"):
                lit = v
        else:
            lit = rng.choice([v, v, v.upper(), v + "x", v[:-1]])
        if any(q in lit for q in "'\"`"):
            lit = "zzz"        # the empty literal stays: `ext = ''` asks for the entries without an extension

        def pred(e, col=col, op=op, lit=lit):
            return model.compare("text", op, model.col_value(e, col, prefix)[1], lit)
        return "%s %s %s" % (col, op, model.quote_lit(lit)), pred, ("text", c, "glob" if model.is_glob(lit) else "plain")
    if kind == "bool":
        col = rng.choice(BOOL_COLS + (EXT_BOOLS if model.EXT_LISTS else []))
        op = rng.choice(BOOL_OPS)
        word = rng.choice(list(model.BOOL_LITS))
        lit = model.BOOL_LITS[word]
        wtext = rng.choice([word, word.upper(), word.capitalize()])

        def pred(e, col=col, op=op, lit=lit):
            v = model.col_value(e, col, prefix)
            return v if v is model.UNDEF else model.compare("bool", op, v[1], lit)
        return "%s %s %s" % (col, op, wtext), pred, ("bool", model.canon_op(op), word)
    if kind == "date":
        e0 = rng.choice(snap)
        t = model.local_naive(e0.st.st_mtime, tz) + datetime.timedelta(seconds=rng.choice([-1, 0, 0, 1, -86400, 86400, 3600, -3600]))
        prec = rng.choice(["day", "hour", "minute", "second"])
        lit = {"day": t.strftime("%Y-%m-%d"), "hour": t.strftime("%Y-%m-%d %H"),
               "minute": t.strftime("%Y-%m-%d %H:%M"), "second": t.strftime("%Y-%m-%d %H:%M:%S")}[prec]
        op = rng.choice(DATE_OPS)

        def pred(e, op=op, lit=lit):
            return model.compare("date", op, model.col_value(e, "modified", prefix, tz)[1], lit, tz=tz)
        shown = lit
        if prec == "day" and rng.random() < 0.3:
            # the same day written out in words (the documented free-form dates): the period is still that day
            mon = ["January", "February", "March", "April", "May", "June", "July", "August", "September", "October", "November",
                   "December"][t.month - 1]
            shown = rng.choice(["%d %s %d" % (t.day, mon, t.year), "%s %d, %d" % (mon, t.day, t.year),
                                "%d %s %d" % (t.day, mon[:3].lower(), t.year), "%02d %s %d" % (t.day, mon, t.year)])
            prec = "day-in-words"
        return "modified %s '%s'" % (op, shown), pred, ("date", model.canon_op(op), prec)
    if kind == "between":
        col = rng.choice(NUM_COLS)
        vals = sorted(set(v[1] for v in (model.col_value(e, col, prefix) for e in snap) if v is not model.UNDEF)) or [0]
        a = rng.choice(vals) + rng.choice([-1, 0, 0, 1])
        b = rng.choice(vals) + rng.choice([-1, 0, 0, 1])
        if a > b and rng.random() < 0.8:
            a, b = b, a
        a, b = max(a, 0), max(b, 0)
        word = rng.choice(["between", "BETWEEN", "Between"])

        def pred(e, col=col, a=a, b=b):
            v = model.col_value(e, col, prefix)
            return v if v is model.UNDEF else (a <= v[1] <= b)
        return "%s %s %d and %d" % (col, word, a, b), pred, ("int", "between", "x")
    if kind == "colcol":
        if rng.random() < 0.7:
            c1, c2 = rng.sample(["size", "uid", "gid", "hardlinks", "length(name)"], 2)
            op = rng.choice(NUM_OPS)

            def pred(e, c1=c1, c2=c2, op=op):
                return model.compare("int", op, model.col_value(e, c1, prefix)[1], model.col_value(e, c2, prefix)[1])
            return "%s %s %s" % (c1, op, c2), pred, ("colcol-int", model.canon_op(op), "x")
        if rng.random() < 0.6:
            # pattern operators whose pattern is another column of the same entry: one pattern per entry
            c1, c2 = rng.choice([("name", "ext"), ("path", "name"), ("path", "dir"), ("name", "name"), ("path", "ext"), ("dir", "ext")])
            op = rng.choice(["=~", "!=~", "rx", "notrx", "like", "notlike", "not like", "=", "!="])

            def pred(e, c1=c1, c2=c2, op=op):
                pat = model.col_value(e, c2, prefix)[1]
                if model.canon_op(op) in ("=~", "!=~"):
                    try:
                        import re as _re
                        _re.compile(pat)
                    except _re.error:
                        return model.UNDEF
                    if any(ch in pat for ch in "{}[]()\\|"):
                        return model.UNDEF      # outside the regex sub-language both engines agree on
                return model.compare("text", op, model.col_value(e, c1, prefix)[1], pat)
            return "%s %s %s" % (c1, op, c2), pred, ("colcol-pattern", model.canon_op(op), c2)
        c1, c2 = rng.sample(["name", "ext", "path", "dir"], 2)
        op = rng.choice(["===", "!==", "eeq", "ene"])

        def pred(e, c1=c1, c2=c2, op=op):
            return model.compare("text", op, model.col_value(e, c1, prefix)[1], model.col_value(e, c2, prefix)[1])
        return "%s %s %s" % (c1, op, c2), pred, ("colcol-text", model.canon_op(op), "x")
    # quoted literal that spells a column or function name
    col = rng.choice(["name", "ext"])
    lit = rng.choice(["size", "name", "bin", "lower", "ext", "path", "uid", "mode", "hex", "length", "modified",
                      "is_dir", "upper", "len"])
    op = rng.choice(["=", "==", "===", "!=", "!==", "eq", "ne"])
    qs = rng.choice(["'%s'", '"%s"', "`%s`"]) % lit

    def pred(e, col=col, op=op, lit=lit):
        return model.compare("text", op, model.col_value(e, col, prefix)[1], lit)
    return "%s %s %s" % (col, op, qs), pred, ("quoted-ident", model.canon_op(op), lit)


def run_job(job):
    res = JobResult()
    rng = random.Random(job["seed"])
    sc = runner.new_scratch("c02")
    try:
        w = runner.work_dir(sc)
        home = runner.make_home(sc)
        root = os.path.join(w, "t")
        os.mkdir(root)
        build_tree(rng, root)
        # the default extension lists are the ones fselect writes into a fresh configuration
        runner.run(["name from t limit 1 into list"], cwd=w, home=home)
        try:
            model.load_ext_lists(os.path.join(home, ".config/fselect/config.toml"))
        except (OSError, KeyError, ImportError):
            pass
        snap = tree.snapshot(root)
        shape = tree.shape_key(snap)
        universe = set(e.abs for e in snap)
        # the local time zone of the run: entries from both halves of the year, so that one fixed offset cannot serve them all
        tz = rng.choice(["UTC", "UTC", "Europe/Berlin", "America/New_York", "Australia/Sydney"])
        res.cover("tz", tz)
        for qi in range(job["queries"]):
            cond, pred, ckey = gen_condition(rng, snap, "t", tz)
            query = "path from t where %s into list" % cond
            r = runner.run([query], cwd=w, home=home, tz=tz)
            res.ev()
            ctx = {"query": query, "result": r.brief()}
            if r.verdict != "ok":
                if r.verdict == "busy":
                    res.viol("busy loop on a WHERE query: " + cond, ctx)
                else:
                    res.inc("watchdog " + r.verdict)
                continue
            if r.panicked or r.rc != 0 or r.err:
                res.viol("status %s, stderr %r for valid condition `%s`" % (r.rc, r.err[:160], cond), ctx,
                         sig=None)
                continue
            got = set(os.path.normpath(os.path.join(w, x)) for x in r.rows())
            wrong_in, wrong_out = [], []
            ntrue = 0
            for e in snap:
                v = pred(e)
                if v is model.UNDEF:
                    continue
                ntrue += bool(v)
                if v and e.abs not in got:
                    wrong_out.append(e.rel)
                if not v and e.abs in got:
                    wrong_in.append(e.rel)
            stray = got - universe
            if wrong_in or wrong_out or stray:
                ctx.update({"wrongly_returned": wrong_in[:6], "wrongly_omitted": wrong_out[:6], "stray": sorted(stray)[:3]})
                res.viol("`%s`: %d entries wrongly returned (e.g. %s), %d wrongly omitted (e.g. %s)" % (
                    cond, len(wrong_in), wrong_in[:2], len(wrong_out), wrong_out[:2]), ctx)
                continue
            res.cover("type_op", "%s %s" % ckey[:2])
            res.cover("type_op_class", "%s %s %s" % ckey if ckey[0] in ("int", "text", "quoted-ident") else "%s %s" % ckey[:2])
            if 0 < ntrue:
                res.nt("%s|%s|%s" % (shape, ckey, "all" if ntrue == len(snap) else "some"))
            if 0 < ntrue < len(snap):
                res.cover("selective_type_op", "%s %s" % ckey[:2])
            res.sample({"query": query, "n_rows": len(got), "n_entries": len(snap)}, cap=2)
    finally:
        runner.rm_scratch(sc)
    return res


def main(chk):
    quick = chk.tier == "quick"
    n = 640 if quick else 2000
    jobs = [{"id": "t%d" % i, "seed": job_seed(chk.seed, "C02", i), "queries": 60 if quick else 150} for i in range(n)]
    chk.run_jobs(jobs, budget_s=300 if quick else 3000)
    return chk.finish(
        rule="random trees (files, dirs, symlinks; varied sizes, owners, modes, mtimes, hard links; files named like "
             "columns/functions) x atomic conditions over numeric/text/boolean/date columns, BETWEEN, column-vs-column and quoted "
             "identifier-like literals, literals drawn from values present +-1. Non-trivial = condition true for >=1 entry; distinct by "
             "(tree shape, type, operator, literal class, all/some).",
        assumptions=["reference comparison semantics written from docs/usage.md and the property statement (fsv/model.py)",
                     "entries whose attribute is undefined (line_count of non-regular files) are don't-care",
                     "ordering operators on text columns are outside the property and not generated"],
        require={"type_op": 40, "selective_type_op": 30},
    )
