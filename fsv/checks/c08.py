"""C08 - GROUP BY partitions the matching entries; per-group aggregates are exact (metamorphic)."""
import collections
import os
import random

from .. import model, runner, tree
from ..core import JobResult, job_seed

KEYS = ["ext", "dir", "is_dir", "mode", "uid", "length(name)", "gid", "is_file", "ext", "name", "lower(ext)"]
INNERS = ["size", "hardlinks", "uid", "length(name)", "gid"]
WHERES = [None, None, "size > 10", "name like '%a%'", "not is_dir", "uid = 1", "size between 1 and 1000"]
INT_AGGS = ["count", "sum", "min", "max"]


def _s(k, v):
    return "%s === '%s'" % (k, v)


def _n(k, v):
    return "%s = %s" % (k, v)


RESTRICT = {"ext": _s, "dir": _s, "name": _s, "lower(ext)": _s, "mode": _s, "uid": _n, "gid": _n, "length(name)": _n,
            "is_dir": _n, "is_file": _n}


def build(rng, root):
    nodes = tree.gen_tree(rng, max_entries=45, max_depth=3, kinds=("file", "dir", "symlink"), odd=0.15)
    for n in nodes:
        if n["kind"] != "symlink":
            n["owner"] = (rng.choice([0, 1, 1, 7, 10]), rng.choice([0, 3, 20]))
            n["mode"] = rng.choice([0o644, 0o600, 0o755]) | (0o700 if n["kind"] == "dir" else 0)
    used = set(n["path"] for n in nodes)
    for nm in rng.sample(["app.log.1", "app.log.01", "x.001", "y.1e0", "z.1", "w.+1", "v.1.0", "u.0", "t.00", "s.-0", "1", "01", "1.0", "q.10", "p.1e1",
                          "o.TXT", "n.txt", "m.Txt"], rng.randint(3, 9)):
        if nm not in used:
            nodes.append({"path": nm, "kind": "file", "size": rng.choice([1, 2, 5, 7])})
    # sparse files whose sizes add up beyond 2^53 with odd low bits, spread over two extensions
    if rng.random() < 0.25:
        for k, sz in enumerate([2 ** 52 + 1, 2 ** 52 + 3, 2 ** 52 + 7, 2 ** 51 + 1]):
            nodes.append({"path": "vast%d.%s" % (k, "bin" if k % 2 else "img"), "kind": "file", "size": sz, "sparse": True})
    tree.materialise(root, nodes)


def numkey(s):
    try:
        return (0, float(s))
    except ValueError:
        return (1, s)


def run_job(job):
    res = JobResult()
    rng = random.Random(job["seed"])
    sc = runner.new_scratch("c08")
    try:
        w = runner.work_dir(sc)
        home = runner.make_home(sc)
        root = os.path.join(w, "t")
        os.mkdir(root)
        build(rng, root)
        # a second root whose entries share key values (extensions, owners, name lengths) with the first one
        os.mkdir(os.path.join(w, "u"))
        build(rng, os.path.join(w, "u"))

        def run(q):
            res.ev()
            return runner.run([q], cwd=w, home=home)

        for qi in range(job["queries"]):
            keys = rng.sample(KEYS, rng.choice([1, 1, 1, 2]))
            frm = rng.choice(["t", "t", "t", "t, u", "u, t", "t, u, t/.", "t maxdepth 2, u dfs", "u mindepth 2, t", "t maxdepth 1", "u, t mindepth 2",
                              "t, u maxdepth 1"])
            inner = rng.choice(INNERS)
            where = rng.choice(WHERES)
            wtxt = (" where " + where) if where else ""
            fns = rng.sample(model.AGGS, rng.randint(1, 4))
            if "count" not in fns and rng.random() < 0.5:
                fns.append("count")
            # rows: key..., inner  (from fselect itself)
            q0 = "%s, %s from %s%s into list" % (", ".join(keys), inner, frm, wtxt)
            r0 = run(q0)
            if r0.verdict != "ok" or r0.rc != 0 or r0.err:
                if r0.verdict == "ok":
                    res.viol("row query failed: `%s` status %s stderr %r" % (q0, r0.rc, r0.err[:120]), {"query": q0})
                else:
                    res.inc("watchdog: %s on `%s`" % (r0.verdict, q0))
                continue
            try:
                rows = r0.rows(len(keys) + 1) if r0.out else []
                groups = collections.OrderedDict()
                for row in rows:
                    groups.setdefault(tuple(row[:-1]), []).append(int(row[-1]))
            except ValueError as e:
                res.inc("cannot decode row query: %s" % e)
                continue
            cols = list(keys)
            for fn in fns:
                cols.append("%s(%s)" % (fn, "*" if fn == "count" and rng.random() < 0.5 else inner))
            # an arithmetic column over aggregates (`max(size) - min(size)`): computed over the group's rows like its operands
            arith = rng.choice([None, None, ("max(%s) - min(%s)" % (inner, inner), lambda v: max(v) - min(v)),
                                ("sum(%s) / count(*)" % inner, lambda v: sum(v) / len(v)), ("count(*) * 2 + min(%s)" % inner, lambda v: len(v) * 2 + min(v)),
                                ("max(%s) mod 7" % inner, lambda v: max(v) % 7)])
            if arith:
                cols.append(arith[0])
            order = ""
            okey = None
            if rng.random() < 0.5:
                # order by a key, an integer aggregate or AVG (real-valued), asc/desc
                cand = list(range(len(keys))) + [len(keys) + i for i, fn in enumerate(fns) if fn in INT_AGGS + ["avg"]]
                oi = rng.choice(cand)
                desc = rng.random() < 0.5
                spelled = cols[oi] if rng.random() < 0.7 else str(oi + 1)
                order = " order by %s%s" % (spelled, " desc" if desc else "")
                okey = (oi, desc)
            gb = rng.choice(["group by", "group by", "GROUP BY", "Group By", "group BY"])
            q = "%s from %s%s %s %s%s into list" % (", ".join(cols), frm, wtxt, gb, ", ".join(keys), order)
            r = run(q)
            ctx = {"query": q, "row_query": q0, "groups": {repr(k): v[:20] for k, v in list(groups.items())[:12]}, "result": r.brief()}
            if r.verdict != "ok":
                res.viol("busy loop on `%s`" % q, ctx) if r.verdict == "busy" else res.inc("watchdog")
                continue
            if r.rc != 0 or r.err or r.panicked:
                res.viol("`%s`: status %s stderr %r" % (q, r.rc, r.err[:150]), ctx)
                continue
            try:
                out = r.rows(len(cols)) if r.out else []
            except ValueError as e:
                res.viol("`%s`: undecodable grouped output (%s)" % (q, e), ctx)
                continue
            if len(cols) == 1:
                out = [(x,) for x in out]
            got_keys = [tuple(row[:len(keys)]) for row in out]
            if sorted(got_keys) != sorted(groups):
                ctx["got_keys"] = got_keys[:10]
                res.viol("`group by %s`: %d group rows for %d distinct key values (missing %s, extra/duplicate %s)" % (
                    ", ".join(keys), len(out), len(groups), sorted(set(groups) - set(got_keys))[:2],
                    [k for k, c in collections.Counter(got_keys).items() if c > 1 or k not in groups][:2]), ctx)
                continue
            bad = False
            for row in out:
                vals = groups[tuple(row[:len(keys)])]
                for fn, cell, col in zip(fns, row[len(keys):], cols[len(keys):]):
                    ok = model.agg_matches(fn, cell, model.aggregate(fn, vals))
                    if ok is False:
                        res.viol("group %s: %s printed %r, textbook value over its %d rows is %s" % (
                            row[:len(keys)], col, cell, len(vals), model.aggregate(fn, vals)), ctx)
                        bad = True
                        break
                if bad:
                    break
                if arith:
                    want = arith[1](vals)
                    try:
                        good = abs(float(row[-1]) - want) <= 1e-9 * max(1.0, abs(want))
                    except ValueError:
                        good = False
                    if not good:
                        res.viol("group %s: %s printed %r, its value over the group's %d rows is %s" % (row[:len(keys)], arith[0], row[-1], len(vals), want), ctx)
                        bad = True
                        break
                    res.count("arithmetic_over_aggregates_checked")
            if bad:
                continue
            # grouping keys need not be selected: the same query with some (or all) keys left out of the select list prints
            # the same group rows without those cells
            if rng.random() < 0.4:
                hide = set(rng.sample(range(len(keys)), rng.randint(1, len(keys))))
                keep = [i for i in range(len(cols)) if i not in hide]
                qh = "%s from %s%s %s %s into list" % (", ".join(cols[i] for i in keep), frm, wtxt, gb, ", ".join(keys))
                rh = run(qh)
                ctx_h = dict(ctx, hidden_key_query=qh, hidden_result=rh.brief())
                if rh.verdict != "ok":
                    res.viol("busy loop on `%s`" % qh, ctx_h) if rh.verdict == "busy" else res.inc("watchdog")
                    continue
                if rh.rc != 0 or rh.err or rh.panicked:
                    res.viol("`%s`: status %s stderr %r" % (qh, rh.rc, rh.err[:150]), ctx_h)
                    continue
                try:
                    outh = rh.rows(len(keep)) if rh.out else []
                except ValueError as e:
                    res.viol("`%s`: undecodable grouped output (%s)" % (qh, e), ctx_h)
                    continue
                if len(keep) == 1:
                    outh = [(x,) for x in outh]
                want_h = sorted(tuple(row[i] for i in keep) for row in out)
                if sorted(tuple(r_) for r_ in outh) != want_h:
                    res.viol("`%s` prints %d group rows %s; with every key selected the same grouping prints %d rows %s" % (
                        qh, len(outh), sorted(tuple(r_) for r_ in outh)[:3], len(out), want_h[:3]), ctx_h)
                    continue
                res.count("unselected_keys_compared")
                res.cover("unselected_keys", ",".join(keys[i] for i in sorted(hide)))
            # conservation against the ungrouped aggregate query
            if "count" in fns or "sum" in fns:
                qa = "count(*), sum(%s) from %s%s into list" % (inner, frm, wtxt)
                ra = run(qa)
                if ra.verdict == "ok" and ra.rc == 0 and not ra.err:
                    tot = ra.rows()
                    if "count" in fns:
                        i = len(keys) + fns.index("count")
                        if sum(int(row[i]) for row in out) != int(tot[0]):
                            res.viol("group COUNTs add up to %d, ungrouped COUNT is %s" % (sum(int(row[i]) for row in out), tot[0]), ctx)
                            continue
                    if "sum" in fns:
                        i = len(keys) + fns.index("sum")
                        if sum(int(row[i]) for row in out) != int(tot[1]):
                            res.viol("group SUMs add up to %d, ungrouped SUM is %s" % (sum(int(row[i]) for row in out), tot[1]), ctx)
                            continue
                    res.count("conservation_checked")
            # "the aggregates it would get from the ungrouped query restricted to key = value": one group per query
            if out and all(k in RESTRICT for k in keys):
                row = rng.choice(out)
                kv = row[:len(keys)]
                if all("'" not in v and "\\" not in v for v in kv):
                    cond = " and ".join(RESTRICT[k](k, v) for k, v in zip(keys, kv))
                    wr = " where %s%s" % ("(%s) and " % where if where else "", cond)
                    rr = run("%s, %s from %s%s into list" % (", ".join(keys), inner, frm, wr))
                    same = False
                    if rr.verdict == "ok" and rr.rc == 0 and not rr.err:
                        try:
                            rrows = rr.rows(len(keys) + 1) if rr.out else []
                            same = sorted(int(x[-1]) for x in rrows) == sorted(groups[tuple(kv)]) and all(tuple(x[:-1]) == tuple(kv) for x in rrows)
                        except ValueError:
                            same = False
                    if same:      # the restriction selects exactly this group's entries (otherwise it is C02's business, not ours)
                        qr = "%s from %s%s into list" % (", ".join(cols[len(keys):]), frm, wr)
                        ra = run(qr)
                        ctx["restricted_query"] = qr
                        if ra.verdict == "ok":
                            if ra.rc != 0 or ra.err:
                                res.viol("`%s`: status %s stderr %r" % (qr, ra.rc, ra.err[:120]), ctx)
                                continue
                            cells = ra.rows()
                            if len(cells) != len(cols) - len(keys):
                                res.viol("`%s`: %d cells for %d aggregates" % (qr, len(cells), len(cols) - len(keys)), ctx)
                                continue
                            def differ(a, b):
                                if a == b:
                                    return False
                                try:        # real-valued aggregates: the rows are added up in a different order
                                    fa, fb = float(a), float(b)
                                    return not (fa == fb or abs(fa - fb) <= 1e-9 * max(1.0, abs(fa), abs(fb)))
                                except ValueError:
                                    return True
                            diff = [(c, a, b) for c, a, b in zip(cols[len(keys):], row[len(keys):], cells)
                                    if differ(a, b) and not (len(groups[tuple(kv)]) < 2 and c.split("(")[0] in ("var_samp", "stddev_samp", "var_pop", "stddev_pop"))]
                            if diff:
                                res.viol("group %s shows %s = %r, the ungrouped query restricted to that key shows %r" % (kv, diff[0][0], diff[0][1], diff[0][2]), ctx)
                                continue
                            res.count("restricted_compared")
            if okey and len(out) >= 2:
                oi, desc = okey
                numeric = oi >= len(keys) or keys[oi] in ("uid", "gid", "length(name)")
                seq = [row[oi] for row in out]
                ks = [numkey(s) if numeric else (1, s.encode("utf-8", "surrogateescape")) for s in seq]
                inorder = all((ks[i] >= ks[i + 1]) if desc else (ks[i] <= ks[i + 1]) for i in range(len(ks) - 1))
                if not inorder:
                    ctx["sequence"] = seq[:20]
                    res.viol("`%s`: group rows are not sorted by %s %s: %s" % (q, cols[oi], "desc" if desc else "asc", seq[:8]), ctx)
                    continue
                res.cover("order_kinds", "%s %s" % ("key" if oi < len(keys) else fns[oi - len(keys)], "desc" if desc else "asc"))
            for k in keys:
                res.cover("keys", k)
            res.cover("n_keys", len(keys))
            res.cover("from", frm)
            if any("" in k for k in groups):
                res.count("empty_string_key_groups")
            if len(groups) >= 2:
                res.nt("%s|%s|%s|%s|%d" % (",".join(keys), ",".join(sorted(fns)), where, order, len(groups)))
            res.sample({"query": q, "group_rows": out[:4], "groups": len(groups)}, cap=2)
    finally:
        runner.rm_scratch(sc)
    return res


def main(chk):
    quick = chk.tier == "quick"
    n = 720 if quick else 2400
    jobs = [{"id": "j%d" % i, "seed": job_seed(chk.seed, "C08", i), "queries": 10 if quick else 20} for i in range(n)]
    chk.run_jobs(jobs, budget_s=300 if quick else 3000)
    return chk.finish(
        rule="random trees (one root, or several roots - one listed twice - whose entries share key values) x grouping keys from ext, dir, is_dir, is_file, mode, uid, gid, length(name) (single and pairs) x aggregate lists "
             "x optional WHERE x optional ORDER BY on a key, an integer aggregate or AVG (asc/desc, explicit or positional). (key, value) "
             "pairs come from `keys, x from t where W`; one group row per distinct key, each aggregate recomputed exactly over that group's "
             "rows, group COUNTs/SUMs add up to the ungrouped query's, one group per query compared cell by cell with the ungrouped aggregate query restricted to `key = value` (only when that restriction returns exactly the group's rows), ordered group rows sorted. Non-trivial = >= 2 groups; distinct by "
             "(keys, functions, where, order, groups).",
        assumptions=["group rows may come in any order unless ORDER BY is given", "numeric order keys compare as numbers, others by code point",
                     "sample statistics of single-row groups are don't-care"],
        require={"from": 9, "keys": 10, "order_kinds": 6, "conservation_checked": 20, "restricted_compared": 20, "unselected_keys_compared": 20},
    )
