"""C14 - size literals and size formatting follow the documented unit tables."""
import itertools
import os
import random
import zipfile
import re
from fractions import Fraction

from .. import model, runner
from ..core import JobResult, job_seed

UNITS = ["", "b", "k", "kib", "kb", "m", "mib", "mb", "g", "gib", "gb", "t", "tib", "tb"]
OPS = ["=", "!=", ">", ">=", "<", "<=", "===", "!=="]
ALIASES = {"=": ["=", "==", "eq"], "!=": ["!=", "<>", "ne"], ">": [">", "gt"], ">=": [">=", "gte", "ge"],
           "<": ["<", "lt"], "<=": ["<=", "lte", "le"], "===": ["===", "eeq"], "!==": ["!==", "ene"]}
RENDER_RE = re.compile(r"^(\d+)(?:\.(\d+))?( ?)([A-Za-z]+)$")
UNIT_RANK = {"B": 0, "K": 1, "M": 2, "G": 3, "T": 4, "P": 5, "E": 6}


def case_variants(rng, u):
    if not u:
        return [""]
    vs = {u, u.upper(), u.capitalize(), "".join(rng.choice([c, c.upper()]) for c in u)}
    return sorted(vs)


def literal_cases(rng, thorough):
    """(literal text, byte count) pairs: every unit in several letter cases, integers and fractions."""
    out = []
    for u in UNITS:
        mult = model.UNITS[u]
        nums = ["1", "2", "3"] if mult >= 1024 ** 4 or mult >= 1000 ** 4 else ["1", "2", "5", "10", "37"]
        if mult > 1:
            fr = ["0.5", "1.5", "2.25", "0.125"] if mult % 8 == 0 else ["0.5", "1.5", "2.25"]
            if mult >= 1000 ** 4:
                fr = ["0.5", "1.5"]
            nums = nums + fr
        for cv in case_variants(rng, u):
            for n in (nums if thorough else rng.sample(nums, min(3, len(nums)))):
                v = Fraction(n) * mult
                if v.denominator != 1 or v > 2 * 1024 ** 4:
                    continue
                out.append((n + cv, int(v)))
    # byte counts beyond 2^53, where neighbouring sizes are the same double: the comparison is still exact
    out += [("8192t", 2 ** 53), ("8192TiB", 2 ** 53), ("8388608g", 2 ** 53), ("9007199254740992", 2 ** 53), ("9007199254740993", 2 ** 53 + 1),
            ("9007199254740994b", 2 ** 53 + 2), ("1048576t", 2 ** 60), ("1152921504606846977", 2 ** 60 + 1), ("9007199254741kb", 9007199254741000)]
    return out


def run_literals(res, rng, w, home, cases):
    """All cases of one job share a directory of sparse files sized v-1, v, v+1 for every byte count v."""
    d = os.path.join(w, "s")
    os.mkdir(d)
    sizes = set()
    for _l, v in cases:
        sizes.update(x for x in (v - 1, v, v + 1) if x >= 0)
    files = {}
    for s in sorted(sizes):
        p = os.path.join(d, "f%d" % s)
        try:
            with open(p, "wb") as f:
                f.truncate(s)
            files["f%d" % s] = os.lstat(p).st_size
        except OSError as e:
            res.inc("sparse file of %d bytes refused: %s" % (s, e))
    for lit, v in cases:
        for op in OPS:
            spelled = rng.choice(ALIASES[op])
            littext = lit if rng.random() < 0.7 else "'%s'" % lit
            if rng.random() < 0.15 and not lit[-1].isdigit():
                # optional space between number and unit inside a quoted literal
                m = re.match(r"^([\d.]+)(\D+)$", lit)
                littext = "'%s %s'" % (m.group(1), m.group(2))
            q = "name from s where size %s %s into list" % (spelled, littext)
            r = runner.run([q], cwd=w, home=home)
            res.ev()
            ctx = {"query": q, "bytes": v, "result": r.brief()}
            if r.verdict != "ok":
                res.viol("busy loop on `%s`" % q, ctx) if r.verdict == "busy" else res.inc("watchdog")
                continue
            if r.rc != 0 or r.err or r.panicked:
                res.viol("`size %s %s`: status %s stderr %r" % (spelled, littext, r.rc, r.err[:120]), ctx)
                continue
            got = set(r.rows())
            exp = set(n for n, sz in files.items() if model.int_cmp(op, sz, v))
            if got != exp:
                near = sorted((files[x] - v) for x in (got ^ exp) if abs(files[x] - v) <= 1)
                ctx["diff_sizes"] = sorted(files[x] for x in got ^ exp)[:8]
                res.viol("`size %s %s` (= %d bytes): %d files misclassified (offsets from the literal: %s)" % (
                    spelled, littext, v, len(got ^ exp), near[:6] or "far"), ctx)
                continue
            unit = re.sub(r"[\d. ]", "", lit).lower()
            res.cover("unit_op", "%s %s" % (unit or "none", op))
            res.cover("unit_spelling", re.sub(r"[\d. ]", "", lit) or "none")
            res.cover("fractional", str("." in lit))
            if 0 < len(exp) < len(files):
                res.nt("lit|%s|%s" % (lit, op))
    res.sample({"kind": "literal", "cases": cases[:4], "files": len(files)}, cap=1)


# ---- rendering ---------------------------------------------------------------------------------

def specifiers():
    out = []
    for prec in ("", "%.0", "%.1", "%.2", "%.3"):
        for space in ("", " "):
            for k in range(0, 4):
                for flags in itertools.combinations("cds", k):
                    for unit in UNITS:
                        out.append((prec, space, "".join(flags), unit))
    return out


def size_grid():
    g = {0, 1, 2, 9, 10, 99, 100, 512}
    for base in (1000, 1024):
        for e in range(1, 5):
            v = base ** e
            for m in (1, 2, 5, 10, 100, 999):
                for dlt in (-1, 0, 1):
                    g.add(v * m + dlt)
    g.update([1678123, 1536, 1023 * 1024, 123456789, 2 ** 40 + 1, 2 ** 50, 10 ** 15 + 7])
    return sorted(x for x in g if 0 <= x < 2 ** 62)


def spec_text(spec):
    prec, space, flags, unit = spec
    return prec + space + flags + unit


def multiplier_for(spec, shown_unit):
    """Bytes per displayed unit, or None when the documentation does not define the combination."""
    prec, space, flags, unit = spec
    letter = shown_unit[0].upper()
    rank = UNIT_RANK.get(letter)
    if rank is None:
        return None
    if rank == 0:
        return 1
    # `c` and `d` together: `d` is documented as "1000-based units, not 1024-based" without exception, and the unit names `c`
    # asks for are the ones `d` prints anyway - the text reads back with base 1000
    dec_unit = unit in ("kb", "mb", "gb", "tb")
    bin_unit = unit in ("kib", "mib", "gib", "tib")
    if "d" in flags:
        if bin_unit:
            return None
        base = 1000
    elif "c" in flags:
        if dec_unit:
            return None
        base = 1024
    elif dec_unit:
        base = 1000
    else:
        base = 1024
    return base ** rank


def check_render(res, spec, size, text, ctx):
    prec, space, flags, unit = spec
    m = RENDER_RE.match(text)
    if not m:
        res.viol("format %r of %d -> %r violates the rendering grammar" % (spec_text(spec), size, text), ctx)
        return None
    intpart, frac, sp, shown = m.groups()
    if (sp == " ") != (space == " "):
        res.viol("format %r of %d -> %r: space flag not honoured" % (spec_text(spec), size, text), ctx)
        return None
    letter = shown[0].upper()
    if letter not in UNIT_RANK or not re.match(r"^(B|[KMGTPE](i?B)?)$", shown, re.I):
        res.viol("format %r of %d -> %r: unknown unit" % (spec_text(spec), size, text), ctx)
        return None
    if "s" in flags and len(shown) != 1:
        res.viol("format %r of %d -> %r: short-unit flag not honoured" % (spec_text(spec), size, text), ctx)
        return None
    if unit and unit != "b" and letter != unit[0].upper():
        res.viol("format %r of %d -> %r: fixed unit not honoured" % (spec_text(spec), size, text), ctx)
        return None
    if unit == "b" and letter != "B":
        res.viol("format %r of %d -> %r: fixed unit b not honoured" % (spec_text(spec), size, text), ctx)
        return None
    if prec and letter != "B":
        n = int(prec[2:])
        # an integral value may be printed without its decimal zeroes ("1000 KB" for %.1): 0 or exactly N decimals
        if len(frac or "") not in (0, n):
            res.viol("format %r of %d -> %r: %d decimals requested, %d shown" % (spec_text(spec), size, text, n, len(frac or "")), ctx)
            return None
    value = Fraction(intpart + ("." + frac if frac else ""))
    return (UNIT_RANK[letter], value, len(frac or ""), shown)


def run_render(res, rng, w, home, specs, sizes, via):
    """via: 'literal' (format_size(<n>, spec)), 'column' (format_size(size, spec) on sparse files), 'fsize' (config default)."""
    d = os.path.join(w, "one")
    if not os.path.isdir(d):
        os.mkdir(d)
        open(os.path.join(d, "x"), "w").close()
    for spec in specs:
        st = spec_text(spec)
        last = None
        ok_all = True
        if via == "fsize":
            h = runner.make_home(os.path.dirname(home), config='default_file_size_format = "%s"\n' % st, name="home-fs%d" % rng.randrange(10 ** 9))
        for size in sizes:
            if via == "literal":
                q = "format_size(%d, '%s') from one into list" % (size, st) if st else "format_size(%d) from one into list" % size
                r = runner.run([q], cwd=w, home=home)
            else:
                fd = os.path.join(w, "sz%d" % size)
                if not os.path.isdir(fd):
                    os.mkdir(fd)
                    with open(os.path.join(fd, "f"), "wb") as f:
                        f.truncate(size)
                if via == "column":
                    q = "format_size(size, '%s') from sz%d into list" % (st, size) if st else "format_size(size) from sz%d into list" % size
                    r = runner.run([q], cwd=w, home=home)
                else:
                    q = "fsize from sz%d into list" % size
                    r = runner.run([q], cwd=w, home=h)
            res.ev()
            ctx = {"query": q, "spec": st, "size": size, "via": via, "result": r.brief()}
            if r.verdict != "ok":
                res.viol("busy loop on `%s`" % q, ctx) if r.verdict == "busy" else res.inc("watchdog")
                ok_all = False
                continue
            if r.rc != 0 or r.err or r.panicked:
                res.viol("specifier %r from the documented grammar rejected: status %s stderr %r" % (st, r.rc, r.err[:120]), ctx)
                ok_all = False
                break
            rows = r.rows()
            if len(rows) != 1:
                res.viol("`%s` printed %d cells" % (q, len(rows)), ctx)
                ok_all = False
                continue
            parsed = check_render(res, spec, size, rows[0], ctx)
            if parsed is None:
                ok_all = False
                continue
            if via == "fsize" and size <= 4 << 20:
                # a zip member of the same size is rendered like the file
                zd = os.path.join(w, "zsz%d" % size)
                if not os.path.isdir(zd):
                    os.mkdir(zd)
                    with zipfile.ZipFile(os.path.join(zd, "p.zip"), "w", zipfile.ZIP_DEFLATED) as z:
                        z.writestr("m", b"\0" * size)
                qz = "path, fsize from zsz%d archives into list" % size
                rz = runner.run([qz], cwd=w, home=h)
                res.ev()
                if rz.verdict == "ok":
                    try:
                        mem = [c for pth, c in rz.rows(2) if pth.startswith("[")] if rz.rc == 0 and not rz.err else None
                    except ValueError:
                        mem = None
                    if mem != [rows[0]]:
                        res.viol("fsize of a zip member of %d bytes under format %r: %s, the file of that size shows %r" % (size, st, mem, rows[0]),
                                 {"query": qz, "spec": st, "size": size, "result": rz.brief()})
                        ok_all = False
                        continue
                    res.count("member_fsize_compared")
            rank, value, ndec, shown = parsed
            # monotone: (unit rank, number) never decreases as the size grows
            if last is not None and (rank, value) < (last[0], last[1]):
                res.viol("format %r is not monotone: %d -> %r but %d -> %r" % (st, last[2], last[3], size, rows[0]), ctx)
                ok_all = False
            last = (rank, value, size, rows[0])
            mult = multiplier_for(spec, shown)
            if mult is not None and not spec[3]:
                # no fixed unit: the unit shown is the largest one the size reaches (1 <= size / unit < base), e.g. 1000 bytes under
                # the decimal flag are 1 KB, not 1000 B
                base = 1000 if "d" in spec[2] else 1024
                if (rank == 0 and size >= base) or (rank > 0 and not (mult <= size and (size < mult * base or rank == 6))):
                    res.viol("format %r of %d -> %r: not the unit the size reaches (base %d)" % (st, size, rows[0], base), ctx)
                    ok_all = False
                    continue
            if mult is not None:
                back = value * mult
                tol = Fraction(mult, 2 * 10 ** ndec)
                if abs(back - size) > tol:
                    res.viol("format %r of %d -> %r parses back to %s (off by %s, allowed %s)" % (
                        st, size, rows[0], float(back), float(abs(back - size)), float(tol)), ctx)
                    ok_all = False
                else:
                    res.count("roundtrips_checked")
            else:
                res.count("roundtrip_undefined_combination")
        if ok_all:
            res.cover("specifiers_" + via, st)
            res.nt("fmt|%s|%s" % (via, st))
    res.sample({"kind": "render", "via": via, "specifiers": [spec_text(s) for s in specs[:5]], "sizes": sizes[:8]}, cap=1)


def run_multi(res, rng, w, home, specs, sizes):
    """Metamorphic: format_size(size, A), format_size(size, B), format_size(size), fsize in ONE query print the same cells
    as one query per column (a specifier must not leak from one call to another, nor into WHERE / ORDER BY)."""
    d = os.path.join(w, "m")
    os.mkdir(d)
    for s in sizes:
        with open(os.path.join(d, "f%d" % s), "wb") as f:
            f.truncate(s)
    for _ in range(len(specs) // 3):
        chosen = rng.sample(specs, 3)
        cols = ["format_size(size, '%s')" % spec_text(s) if spec_text(s) else "format_size(size)" for s in chosen] + ["format_size(size)", "fsize"]
        cols = list(dict.fromkeys(cols))
        rng.shuffle(cols)
        alone = {}
        ok = True
        for c in cols:
            r = runner.run(["name, %s from m into list" % c], cwd=w, home=home)
            res.ev()
            if r.verdict != "ok" or r.rc != 0 or r.err:
                ok = False
                break
            alone[c] = dict(r.rows(2))
        if not ok:
            continue
        tail = rng.choice(["", " where format_size(size, '%.0 k') != 'x'", " order by format_size(size, '%.1 d')", " order by size desc"])
        q = "name, %s from m%s into list" % (", ".join(cols), tail)
        r = runner.run([q], cwd=w, home=home)
        res.ev()
        ctx = {"query": q, "result": r.brief()}
        if r.verdict != "ok" or r.rc != 0 or r.err:
            res.viol("`%s`: status %s stderr %r" % (q, r.rc, r.err[:120]), ctx)
            continue
        bad = False
        for row in r.rows(len(cols) + 1):
            for c, cell in zip(cols, row[1:]):
                if alone[c].get(row[0]) != cell:
                    res.viol("%s prints %r for %s next to %s, but %r when selected alone" % (c, cell, row[0], [x for x in cols if x != c], alone[c].get(row[0])), ctx)
                    bad = True
                    break
            if bad:
                break
        if not bad:
            res.count("multi_specifier_queries_checked")
            res.nt("multi|" + q)


def run_job(job):
    res = JobResult()
    rng = random.Random(job["seed"])
    sc = runner.new_scratch("c14")
    try:
        w = runner.work_dir(sc)
        home = runner.make_home(sc)
        if job["kind"] == "literals":
            run_literals(res, rng, w, home, [tuple(c) for c in job["cases"]])
        elif job["kind"] == "multi":
            run_multi(res, rng, w, home, [tuple(s) for s in job["specs"]], job["sizes"])
        else:
            run_render(res, rng, w, home, [tuple(s) for s in job["specs"]], job["sizes"], job["via"])
    finally:
        runner.rm_scratch(sc)
    return res


def main(chk):
    quick = chk.tier == "quick"
    rng = random.Random(job_seed(chk.seed, "C14", "plan"))
    jobs = []
    cases = literal_cases(rng, not quick)
    rng.shuffle(cases)
    per = 12
    for i in range(0, len(cases), per):
        jobs.append({"id": "lit%d" % i, "kind": "literals", "seed": job_seed(chk.seed, "C14", i), "cases": cases[i:i + per]})
    specs = specifiers()
    grid = size_grid()
    nspec = len(specs)
    rng.shuffle(specs)
    per = 16
    for i in range(0, nspec, per):
        sizes = grid if not quick else sorted(rng.sample(grid, 14))
        jobs.append({"id": "fmt%d" % i, "kind": "render", "via": "literal", "seed": job_seed(chk.seed, "C14", "f%d" % i),
                     "specs": specs[i:i + per], "sizes": sizes})
    for i in range(0, nspec, per * (8 if quick else 2)):
        sizes = sorted(rng.sample([g for g in grid if g <= 2 ** 40 + 1], 6 if quick else 12))
        jobs.append({"id": "col%d" % i, "kind": "render", "via": "column", "seed": job_seed(chk.seed, "C14", "c%d" % i),
                     "specs": specs[i:i + 6], "sizes": sizes})
        jobs.append({"id": "fs%d" % i, "kind": "render", "via": "fsize", "seed": job_seed(chk.seed, "C14", "s%d" % i),
                     "specs": specs[i + 6:i + 12], "sizes": sizes})
    for i in range(0, nspec, per * (6 if quick else 1)):
        jobs.append({"id": "multi%d" % i, "kind": "multi", "seed": job_seed(chk.seed, "C14", "m%d" % i), "specs": specs[i:i + 12],
                     "sizes": sorted(rng.sample([g for g in grid if g <= 2 ** 40 + 1], 5))})
    chk.run_jobs(jobs, budget_s=300 if quick else 3000)
    return chk.finish(
        rule="(a) every unit suffix (none b k kib kb m mib mb g gib gb t tib tb) in lower/upper/capitalised/random case with integer and "
             "fractional numbers whose product is integral, compared by all 8 numeric operators against sparse files of v-1, v, v+1 bytes; "
             "(b) every specifier (%%.0|%%.1|%%.2|%%.3|none)(space|none)(subset of c d s)(unit|none) = %d specifiers x a logarithmic size grid "
             "with +-1 neighbours through format_size(<literal>), and samples through format_size(size) on sparse files and through fsize with "
             "default_file_size_format: rendering grammar, monotonicity in the size, and round trip within half a unit of the last digit. "
             "Non-trivial = literal selects a proper subset / specifier passed on every size; distinct by (literal, operator) and (path, specifier)."
             % nspec,
        assumptions=["exact rendered strings are not modelled (rounding belongs to the humansize crate); only the three stated relations are, "
                     "plus what `base` means for a specifier without a fixed unit: the unit shown is the largest one the size reaches (1000 bytes "
                     "under the decimal flag are 1 KB, 1023 bytes under the binary base are 1023 B)",
                     "the round trip is judged only for flag/unit combinations whose base the documentation defines (not c+d, d+kib, c+kb)",
                     "one format_size column per run, so a C15 value-cache defect cannot raise a C14 alarm"],
        require={"unit_op": 100, "specifiers_literal": 800 if not quick else 800, "multi_specifier_queries_checked": 20},
        exhaustive={"unit_suffixes": UNITS, "specifier_grammar_size": nspec, "size_grid_points": len(grid)},
    )
