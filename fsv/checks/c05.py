"""C05 - ORDER BY output is sorted by the requested keys and loses or invents no row."""
import os
import random

from .. import ordering, runner
from ..core import JobResult, job_seed

WHERES = [None, None, "size > 9", "is_file", "name like '%a%'", "size between 5 and 500", "not is_dir"]


def monitor_cmp(res, r, ctx):
    """O3 `cmp` events: the comparator must be antisymmetric on every pair it was asked about in both directions."""
    seen = {}
    n = 0
    for ev in r.events:
        if ev["ev"] != "cmp":
            continue
        n += 1
        seen[(ev["a"], ev["b"])] = ev["ord"]
    for (a, b), o in seen.items():
        rev = seen.get((b, a))
        if rev is None:
            continue
        want = {"Less": "Greater", "Greater": "Less", "Equal": "Equal"}[o]
        if rev != want:
            res.viol("hook cmp: comparator not antisymmetric: cmp(%r,%r)=%s but cmp(b,a)=%s" % (a, b, o, rev), ctx)
            break
    res.count("hook_cmp_events", n)


def run_job(job):
    res = JobResult()
    rng = random.Random(job["seed"])
    sc = runner.new_scratch("c05")
    try:
        w = runner.work_dir(sc)
        # no configuration file (the defaults are written on first use), an empty one, or a hand-written one with a single
        # unrelated setting: what is left unsaid in the file takes its documented default
        cfg = random.Random(job["seed"] ^ 0x5eed).choice([None, None, "", "no_color = true\n", "gitignore = false\nhgignore = false\n"])
        home = runner.make_home(sc, config=cfg)
        res.cover("configuration_file", "none" if cfg is None else "empty" if cfg == "" else "partial")
        root = os.path.join(w, "t")
        os.mkdir(root)
        ordering.order_tree(rng, root, extra=job.get("extra", 0))

        def run(q, trace=False):
            res.ev()
            return runner.run([q], cwd=w, home=home, trace=trace)

        pool = []
        for qi in range(job["queries"]):
            sel = ["path"] + rng.sample(["name", "size", "ext", "modified", "uid", "hardlinks", "-size", "-uid", "size * 2", "upper(name)", "-hardlinks"], rng.randint(0, 3))
            where = rng.choice(WHERES)
            ob, exprs, asc = ordering.gen_keys(rng, sel)
            kinds = [ordering.key_kind(e) for e in exprs]
            frm = rng.choice(["t", "t", "t", "t/d1, t/d2, t/many", "t/many dfs, t/d1", "t maxdepth 2"])
            table, fail = ordering.learn_keys(run, exprs, frm, where)
            if table is None:
                q, r = fail
                if r.verdict == "busy":
                    res.viol("busy loop on `%s`" % q, {"query": q})
                elif r.verdict != "ok":
                    res.inc("watchdog")
                else:
                    res.viol("key-learning query failed: `%s` status %s stderr %r" % (q, r.rc, r.err[:120]),
                             {"query": q, "result": r.brief()})
                continue
            q = "%s from %s%s order by %s into list" % (", ".join(sel), frm, (" where " + where) if where else "", ob)
            res.cover("from_clauses", frm)
            pool.append(q)
            r = run(q, trace=(qi % 3 == 0))
            ctx = {"query": q, "keys": exprs, "asc": asc, "result": r.brief()}
            if r.verdict != "ok":
                res.viol("busy loop on `%s`" % q, ctx) if r.verdict == "busy" else res.inc("watchdog")
                continue
            if r.rc != 0 or r.err or r.panicked:
                res.viol("`%s`: status %s stderr %r" % (q, r.rc, r.err[:150]), ctx)
                continue
            try:
                rows = r.rows(len(sel))
            except ValueError as e:
                res.viol("undecodable output: %s" % e, ctx)
                continue
            paths = [x[0] if len(sel) > 1 else x for x in rows]
            if sorted(paths) != sorted(table):
                ctx["missing"] = sorted(set(table) - set(paths))[:5]
                ctx["extra"] = sorted(set(paths) - set(table))[:5]
                res.viol("`order by %s`: ordered result is not a permutation of the unordered rows (%d vs %d rows)" % (
                    ob, len(paths), len(table)), ctx)
                continue
            bad = None
            for i in range(len(paths) - 1):
                if ordering.cmp_rows(table[paths[i]], table[paths[i + 1]], kinds, asc) > 0:
                    bad = i
                    break
            if bad is not None:
                ctx["pair"] = [[paths[bad], table[paths[bad]]], [paths[bad + 1], table[paths[bad + 1]]]]
                res.viol("`order by %s`: rows %d,%d out of order: keys %s then %s" % (
                    ob, bad, bad + 1, table[paths[bad]], table[paths[bad + 1]]), ctx)
                continue
            if r.events:
                monitor_cmp(res, r, ctx)
            for e, k, a in zip(exprs, kinds, asc):
                res.cover("key_kind_dir", "%s %s" % (k, "asc" if a else "desc"))
                res.cover("key_exprs", e)
            res.cover("n_keys", len(exprs))
            res.cover("positional", str(any(p.strip().split(" ")[0].isdigit() for p in ob.split(","))))
            distinct = len(set(tuple(v) for v in table.values()))
            if distinct >= 2:
                res.nt("%s|%s|%s" % (ob, where, len(table)))
            res.sample({"query": q, "first_rows": paths[:5], "rows": len(paths)}, cap=2)
        # history: in interactive mode (`fselect -i`) the same queries run in one process, one after the other - each must
        # print what it prints when run alone
        if len(pool) >= 2 and job.get("session", True):
            runner.session_matches(res, rng.sample(pool, min(4, len(pool))), w, home, "ordered queries")
    finally:
        runner.rm_scratch(sc)
    return res


def main(chk):
    quick = chk.tier == "quick"
    n = 800 if quick else 3200
    jobs = [{"id": "j%d" % i, "seed": job_seed(chk.seed, "C05", i), "queries": 14 if quick else 24} for i in range(n)]
    for i in range(2 if quick else 16):
        jobs.append({"id": "large%d" % i, "seed": job_seed(chk.seed, "C05", "L%d" % i), "queries": 6, "extra": 2500})
    chk.run_jobs(jobs, budget_s=300 if quick else 3000)
    return chk.finish(
        rule="trees with many ties (sizes 5/50/500/9/90..., equal names in different directories, a directory with >= 10 sub-directories, "
             "mtimes one second apart) x key lists of length 1..3 over string, numeric, date columns and integer-valued expressions "
             "(incl. negative values) x asc/desc x positional/explicit keys x optional WHERE. Each key's values are learned from a separate "
             "`path, <key>` run; the ordered result must be a permutation and every adjacent pair must be in order under a numeric / "
             "chronological / code-point comparator. Non-trivial = >= 2 distinct key tuples; distinct by (order-by text, where, row count).",
        assumptions=["key values are taken as fselect prints them (metamorphic), so a wrong column value cannot raise a C05 alarm",
                     "string keys compare by Unicode code point (= UTF-8 byte order); ties may appear in any order"],
        require={"key_kind_dir": 6, "key_exprs": 20},
    )
