"""C20 - ignore-file options remove exactly the ignored entries."""
import os
import random
import re
import subprocess

from .. import runner, tree
from ..core import JobResult, job_seed

NAMES_F = ["a.o", "b.o", "foo.old", "main.c", "README.md", "notes.md", "keep.md", "x.log", "y.log", "debug.log", "Makefile", "a.txt", "ab.txt",
           "abc.txt", "tmp", "build.sh", "data.json", "img.png", "a+b.c", "we(ird).o", "dot.file.tmp", ".env", ".hidden.log"]
NAMES_D = ["src", "build", "target", "docs", "node_modules", "tmp", "lib", "out.d", "a", "logs", ".cache"]


def gen_repo_tree(rng, root):
    nodes = []
    dirs = [""]
    for _ in range(rng.randint(2, 7)):
        parent = rng.choice(dirs)
        if parent.count("/") >= 2:
            continue
        d = rng.choice(NAMES_D)
        p = d if not parent else parent + "/" + d
        if p not in dirs:
            dirs.append(p)
            nodes.append({"path": p, "kind": "dir"})
    used = set(dirs)
    for _ in range(rng.randint(6, 22)):
        parent = rng.choice(dirs)
        f = rng.choice(NAMES_F)
        p = f if not parent else parent + "/" + f
        if p not in used:
            used.add(p)
            nodes.append({"path": p, "kind": "file", "size": 1})
    # symbolic links: an entry is judged by its own name and place, not by what it points to
    files = [n["path"] for n in nodes if n["kind"] == "file"]
    for _ in range(rng.choice([0, 0, 1, 2, 3])):
        parent = rng.choice(dirs)
        f = rng.choice(NAMES_F + NAMES_D)
        p = f if not parent else parent + "/" + f
        if p in used:
            continue
        used.add(p)
        c = rng.random()
        if c < 0.45 and files:
            tgt = os.path.relpath(rng.choice(files), parent or ".")
        elif c < 0.8 and len(dirs) > 1:
            tgt = os.path.relpath(rng.choice(dirs[1:]), parent or ".")
        else:
            tgt = "no-such-target"
        nodes.append({"path": p, "kind": "symlink", "target": tgt})
    tree.materialise(root, nodes)
    return dirs


def gen_patterns(rng, dirs, tool):
    """Lines for an ignore file from the generated subset, returns list of text lines."""
    lines = []
    n = rng.randint(1, 6)
    subdirs = [d for d in dirs if d]
    for _ in range(n):
        k = rng.choice(["name", "ext", "dir/", "dir/ext", "**/name", "?", "comment", "blank", "neg"] + (["rooted"] if tool != "hg" else []))
        if k == "name":
            lines.append(rng.choice(NAMES_F + NAMES_D))
        elif k == "ext":
            lines.append("*." + rng.choice(["o", "log", "md", "txt", "tmp", "old"]))
        elif k == "dir/":
            lines.append(rng.choice(NAMES_D) + "/")
        elif k == "dir/ext":
            lines.append(rng.choice(NAMES_D) + "/*." + rng.choice(["o", "log", "md", "c"]))
        elif k == "**/name":
            lines.append("**/" + rng.choice(NAMES_F + NAMES_D))
        elif k == "?":
            lines.append(rng.choice(["a?.txt", "?.o", "ab?.txt", "?.log", "tm?"]))
        elif k == "comment":
            lines.append("# " + rng.choice(["build output", "*.md", "logs"]))
        elif k == "blank":
            lines.append("")
        elif k == "rooted":
            lines.append("/" + rng.choice(NAMES_F + NAMES_D))
        elif k == "neg" and tool in ("git", "docker"):
            # re-include a file name that an earlier *.ext / literal pattern may exclude (never something inside an excluded directory)
            lines.append("!" + rng.choice(["keep.md", "README.md", "debug.log", "a.o", "ab.txt"]))
    return lines


# ---- reference matchers ------------------------------------------------------------------------------

def glob_rx(g, star="[^/]*", qm="[^/]", dstar=".*"):
    out = []
    i = 0
    while i < len(g):
        if g.startswith("**/", i):
            out.append("(?:.*/)?")
            i += 3
        elif g.startswith("**", i):
            out.append(dstar)
            i += 2
        elif g[i] == "*":
            out.append(star)
            i += 1
        elif g[i] == "?":
            out.append(qm)
            i += 1
        else:
            out.append(re.escape(g[i]))
            i += 1
    return "".join(out)


def prefixes(rel):
    parts = rel.split("/")
    return ["/".join(parts[:i]) for i in range(1, len(parts) + 1)]


def docker_ignored(lines, rel):
    """rel: path relative to the directory holding .dockerignore. Last matching line decides; a pattern matches a
    path if it matches the path itself or one of its ancestors."""
    verdict = False
    for raw in lines:
        line = raw.strip()
        if not line or line.startswith("#"):
            continue
        neg = line.startswith("!")
        if neg:
            line = line[1:].strip()
        line = line.lstrip("/").rstrip("/")
        if not line:
            continue
        rx = re.compile("^" + glob_rx(line) + "$")
        if any(rx.match(p) for p in prefixes(rel)):
            verdict = not neg
    return verdict


def hg_ignored(lines, rel):
    syntax = "regexp"
    for raw in lines:
        line = raw.rstrip("\n")
        if not line.strip() or line.startswith("#"):
            continue
        if line.startswith("syntax:"):
            syntax = line.split(":", 1)[1].strip()
            continue
        if syntax == "glob":
            rx = re.compile("(?:^|.*/)" + glob_rx(line.rstrip("/")) + "$")
            if any(rx.match(p) for p in prefixes(rel)):
                return True
        else:
            rx = re.compile(line)
            if any(rx.search(p) for p in prefixes(rel)):
                return True
    return False


def git_ignored_set(repo, home, rels):
    """Verdicts of the real git for every path (relative to the repository root)."""
    env = {"HOME": home, "PATH": "/usr/bin:/bin", "GIT_CONFIG_NOSYSTEM": "1", "LC_ALL": "C"}
    inp = "\0".join(rels) + "\0"
    p = subprocess.run(["git", "-C", repo, "-c", "core.excludesFile=/dev/null", "check-ignore", "--no-index", "--stdin", "-z"],
                       input=inp.encode(), stdout=subprocess.PIPE, stderr=subprocess.PIPE, env=env)
    if p.returncode not in (0, 1):
        raise RuntimeError("git check-ignore failed: %s" % p.stderr[:200])
    return set(x.decode() for x in p.stdout.split(b"\0") if x)


def libgit2_drops(lines):
    """Defect model `git_negation_without_positive_rule_in_same_file_dropped`: libgit2 discards a negative rule
    unless an earlier positive rule of the SAME ignore file could match it (ignore.c: does_negate_rule), so a
    nested .gitignore cannot re-include what a parent .gitignore excludes. Returns the lines libgit2 keeps."""
    import fnmatch
    kept = []
    positives = []
    for raw in lines:
        line = raw.strip()
        if line.startswith("!"):
            pat = line[1:].strip("/")
            ok = False
            for r in positives:
                rp = r.strip("/")
                if any(ch in rp for ch in "*?["):
                    if fnmatch.fnmatchcase(pat, rp) or fnmatch.fnmatchcase(pat, "*/" + rp) or fnmatch.fnmatchcase(os.path.basename(pat), rp):
                        ok = True
                elif rp == pat or os.path.basename(rp) == pat:
                    ok = True
            if ok:
                kept.append(raw)
            continue
        if line and not line.startswith("#"):
            positives.append(line)
        kept.append(raw)
    return kept


SIG_NEG = "git_negation_without_positive_rule_in_same_file_dropped"
SIG_LINK = "git_dir_only_pattern_matches_link_to_directory"


def git_models(repo, home, rels):
    """Ignored sets under the libgit2 defect models: {(): what the real git says, (SIG,...): what git says after the
    repository was rewritten the way libgit2 sees it}. Only models that change something in this repository appear.
      SIG_NEG  - ignore files rewritten without the negations libgit2 drops (libgit2_drops)
      SIG_LINK - libgit2 decides "is a directory" with stat(), i.e. through links: every link to a directory is
                 replaced by an empty real directory, so directory-only patterns (`build/`) apply to it
    Everything is restored afterwards."""
    def ask():
        ign = git_ignored_set(repo, home, rels)
        return set(r for r in rels if r in ign or any(p in ign for p in prefixes(r)[:-1]))

    out = {(): ask()}
    neg_files = {}
    for dp, _dn, fn in os.walk(repo):
        if ".gitignore" in fn and ".git" not in dp.split(os.sep):
            fp = os.path.join(dp, ".gitignore")
            with open(fp) as f:
                orig = f.read()
            kept = "\n".join(libgit2_drops(orig.split("\n")))
            if kept != orig:
                neg_files[fp] = (orig, kept)
    links = {}
    for r in rels:
        ap = os.path.join(repo, r)
        if os.path.islink(ap) and os.path.isdir(ap):
            links[ap] = os.readlink(ap)

    def apply(models, on):
        if SIG_NEG in models:
            for fp, (orig, kept) in neg_files.items():
                with open(fp, "w") as f:
                    f.write(kept if on else orig)
        if SIG_LINK in models:
            for ap, tgt in links.items():
                if on:
                    os.unlink(ap)
                    os.mkdir(ap)
                else:
                    os.rmdir(ap)
                    os.symlink(tgt, ap)

    combos = []
    if neg_files:
        combos.append((SIG_NEG,))
    if links:
        combos.append((SIG_LINK,))
    if neg_files and links:
        combos.append((SIG_LINK, SIG_NEG))
    for models in combos:
        apply(models, True)
        try:
            pred = ask()
        finally:
            apply(models, False)
        if pred != out[()]:
            out[models] = pred
    return out


def classify(got_ignored, models):
    """Which defect models explain the observed ignored set exactly: () = none needed (correct), None = no model does."""
    for key in sorted(models, key=len):
        if models[key] == got_ignored:
            return key
    return None


def write_ignore(rng, path, lines):
    """Writes an ignore file; a third of them carry a comment line that is not valid UTF-8 (Latin-1) before, between or after the
    patterns - such a line is no pattern, and the lines after it still count."""
    raw = [l.encode() for l in lines]
    if rng.random() < 0.35:
        raw.insert(rng.randint(0, len(raw)), b"# r\xe9sultats g\xe9n\xe9r\xe9s")
    with open(path, "wb") as f:
        f.write(b"\n".join(raw) + b"\n")


def hg_lines(rng, dirs):
    lines = []
    syntax = "regexp"
    for _ in range(rng.randint(1, 6)):
        if rng.random() < 0.3:
            syntax = rng.choice(["glob", "regexp"])
            lines.append("syntax: " + syntax)
        if syntax == "glob":
            lines += [l for l in gen_patterns(rng, dirs, "hg")[:1] if not l.startswith("!")]
        else:
            lines.append(rng.choice([r"\.o$", r"^build$", r"^src/.*\.c$", r"\.log$", r"^tmp", r"node_modules", r"^docs/", r"a\.txt$", r"^[a-c]\.o$",
                                     r"\.md$", r"^out\.d$", r"(^|/)tmp$", r"# comment"]))
    return lines


def job_container(res, rng, sc, w):
    """The search root is NOT a repository but contains two git repositories, each with its own .gitignore."""
    home = runner.make_home(sc, config="")
    env = {"HOME": home, "PATH": "/usr/bin:/bin", "GIT_CONFIG_NOSYSTEM": "1"}
    top = os.path.join(w, "work")
    os.mkdir(top)
    want_all, ignored_all = [], set()
    scopes = {}
    ignfiles = {}
    for name in ("repoA", "repoB", "plain"):
        d = os.path.join(top, name)
        os.mkdir(d)
        dirs = gen_repo_tree(rng, d)
        if name != "plain":
            subprocess.run(["git", "init", "-q", d], env=env, check=True, stdout=subprocess.DEVNULL, stderr=subprocess.DEVNULL)
            lines = gen_patterns(rng, dirs, "git")
            with open(os.path.join(d, ".gitignore"), "w") as f:
                f.write("\n".join(lines) + "\n")
        snap = tree.snapshot(d)
        rels = [e.rel for e in snap if not (e.rel == ".git" or e.rel.startswith(".git/"))]
        if name != "plain":
            scopes[name] = (rels, git_models(d, home, rels))
            ign = scopes[name][1][()]
        else:
            ign = set()
        ignfiles = dict(ignfiles, **{name: lines}) if name != "plain" else ignfiles
        want_all += [name + "/" + r for r in rels if r not in ign]
        ignored_all |= set(name + "/" + r for r in ign)
    for mode in ("", " dfs", " bfs"):
        for frm, cwd in (("work", w), (top, w), (".", top)):
            query = "path from %s gitignore%s into list" % (frm, mode)
            r = runner.run([query], cwd=cwd, home=home)
            res.ev()
            ctx = {"query": query, "cwd": os.path.relpath(cwd, w), "ignore_files": ignfiles, "result": r.brief()}
            if r.verdict != "ok" or r.rc != 0 or r.err:
                if r.verdict in ("ok", "busy", "blocked"):
                    res.viol("`%s`: %s status %s stderr %r" % (query, r.verdict, r.rc, r.err[:160]), ctx)
                continue
            got = set(os.path.relpath(os.path.normpath(os.path.join(cwd, x)), top) for x in r.rows())
            got = set(x for x in got if "/.git/" not in x and not x.endswith("/.git"))
            want = set(want_all) | {"repoA", "repoB", "plain"}
            if got != want:
                ctx["wrongly_listed"] = sorted(got - want)[:8]
                ctx["wrongly_omitted"] = sorted(want - got)[:8]
                # known only if, repository by repository, the listed entries are exactly what a defect model predicts
                outside = lambda xs: set(x for x in xs if x.split("/")[0] not in scopes or "/" not in x)
                used, explained = set(), outside(got) == outside(want)
                for name, (rels, models) in scopes.items():
                    got_ign = set(r for r in rels if name + "/" + r not in got)
                    key = classify(got_ign, models)
                    if key is None:
                        explained = False
                    else:
                        used |= set(key)
                sig = "+".join(sorted(used)) if explained and used else None
                res.viol("git on (option, root containing two repositories,%s): %d entries wrongly omitted (e.g. %s), %d wrongly listed (e.g. %s)" % (
                    mode or " default", len(want - got), sorted(want - got)[:2], len(got - want), sorted(got - want)[:2]), ctx, sig=sig)
                continue
            res.cover("spelling_mode", "container %s" % (mode.strip() or "default"))
            if ignored_all:
                res.nt("container|%s|%s|%d" % (mode, frm == ".", len(ignored_all)))


def job_two_scopes(res, rng, sc, w, tool):
    """Two roots, each below its own ignore file: every root must be filtered by its own rules (and only by them)."""
    home = runner.make_home(sc, config="")
    want = {}
    fname = {"hg": ".hgignore", "docker": ".dockerignore"}[tool]
    for name in ("ctxA", "ctxB"):
        d = os.path.join(w, name)
        os.mkdir(d)
        dirs = gen_repo_tree(rng, d)
        if tool == "hg":
            os.mkdir(os.path.join(d, ".hg"))
            lines = hg_lines(rng, dirs)
        else:
            lines = gen_patterns(rng, dirs, "docker")
        with open(os.path.join(d, fname), "w") as f:
            f.write("\n".join(lines) + "\n")
        rels = [e.rel for e in tree.snapshot(d) if not (e.rel == ".hg" or e.rel.startswith(".hg/"))]
        ign = set(r for r in rels if (hg_ignored(lines, r) if tool == "hg" else docker_ignored(lines, r)))
        want[name] = (set(rels) - ign, ign, lines)
    opt = {"hg": "hgignore", "docker": "dockerignore"}[tool]
    for order in (("ctxA", "ctxB"), ("ctxB", "ctxA")):
        for o2 in (opt, ""):
            query = "path from %s %s, %s %s into list" % (order[0], opt, order[1], o2)
            r = runner.run([query], cwd=w, home=home)
            res.ev()
            ctx = {"query": query, "ignore_files": {k: v[2] for k, v in want.items()}, "result": r.brief()}
            if r.verdict != "ok" or r.rc != 0 or r.err:
                if r.verdict in ("ok", "busy", "blocked"):
                    res.viol("`%s`: %s status %s stderr %r" % (query, r.verdict, r.rc, r.err[:160]), ctx)
                continue
            got = set(x for x in r.rows() if "/.hg" not in x)
            exp = set(order[0] + "/" + x for x in want[order[0]][0])
            exp |= set(order[1] + "/" + x for x in (want[order[1]][0] if o2 else want[order[1]][0] | want[order[1]][1]))
            exp = set(x for x in exp if "/.hg" not in x)
            if got != exp:
                ctx["wrongly_listed"] = sorted(got - exp)[:8]
                ctx["wrongly_omitted"] = sorted(exp - got)[:8]
                res.viol("%s with two roots in different ignore scopes (%s): %d entries wrongly omitted (e.g. %s), %d wrongly listed (e.g. %s)" % (
                    tool, query, len(exp - got), sorted(exp - got)[:2], len(got - exp), sorted(got - exp)[:2]), ctx)
                continue
            res.cover("spelling_mode", "two-scopes %s %s" % (tool, "both" if o2 else "first-only"))
            if want[order[0]][1] or want[order[1]][1]:
                res.nt("two-scopes|%s|%s|%s" % (tool, order, o2))


def run_job(job):
    res = JobResult()
    rng = random.Random(job["seed"])
    sc = runner.new_scratch("c20")
    try:
        w = runner.work_dir(sc)
        tool = job["tool"]
        if tool in ("hg-two-scopes", "docker-two-scopes"):
            job_two_scopes(res, rng, sc, w, tool.split("-")[0])
            return res
        if tool == "git-container":
            job_container(res, rng, sc, w)
            return res
        repo = os.path.join(w, "repo")
        os.mkdir(repo)
        dirs = gen_repo_tree(rng, repo)
        home = runner.make_home(sc, config="")
        nested = None
        if tool == "git":
            env = {"HOME": home, "PATH": "/usr/bin:/bin", "GIT_CONFIG_NOSYSTEM": "1"}
            subprocess.run(["git", "init", "-q", repo], env=env, check=True, stdout=subprocess.DEVNULL, stderr=subprocess.DEVNULL)
            lines = gen_patterns(rng, dirs, "git")
            if rng.random() < 0.25:
                # a negation that would re-include a file whose directory is excluded: it cannot (the search may start inside)
                cands = [(d, f) for d in dirs if d and "/" not in d for f in sorted(os.listdir(os.path.join(repo, d)))
                         if os.path.isfile(os.path.join(repo, d, f)) and "." in f.strip(".")]
                if cands:
                    d, f = rng.choice(cands)
                    lines += ["*." + f.rsplit(".", 1)[1], "!" + f, rng.choice(["/" + d, d + "/", d])]
            with open(os.path.join(repo, ".gitignore"), "w") as f:
                f.write("\n".join(lines) + "\n")
            sub = [d for d in dirs if d]
            if sub and rng.random() < 0.4:
                nested = rng.choice(sub)
                nl = gen_patterns(rng, dirs, "git")[:3]
                with open(os.path.join(repo, nested, ".gitignore"), "w") as f:
                    f.write("\n".join(nl) + "\n")
                lines = lines + ["[%s/.gitignore]" % nested] + nl
        elif tool == "hg":
            os.mkdir(os.path.join(repo, ".hg"))
            lines = hg_lines(rng, dirs)
            write_ignore(rng, os.path.join(repo, ".hgignore"), lines)
        else:
            lines = gen_patterns(rng, dirs, "docker")
            write_ignore(rng, os.path.join(repo, ".dockerignore"), lines)
        snap = tree.snapshot(repo)
        ignored_quirk = None
        rels = [e.rel for e in snap if not (e.rel == ".git" or e.rel.startswith(".git/") or e.rel == ".hg" or e.rel.startswith(".hg/"))]
        if tool == "git":
            try:
                ign = git_ignored_set(repo, home, rels)
            except (RuntimeError, OSError) as e:
                res.inc("git oracle unavailable: %s" % e)
                return res
            ignored = set(r for r in rels if r in ign or any(p in ign for p in prefixes(r)[:-1]))
            ignored_quirk = git_models(repo, home, rels)
        elif tool == "hg":
            ignored = set(r for r in rels if hg_ignored(lines, r))
        else:
            ignored = set(r for r in rels if docker_ignored(lines, r))
        opt = {"git": ["gitignore", "git"], "hg": ["hgignore", "hg"], "docker": ["dockerignore", "dock"]}[tool]
        noopt = {"git": ["nogitignore", "nogit"], "hg": ["nohgignore", "nohg"], "docker": ["nodockerignore", "nodock"]}[tool]
        cfgkey = {"git": "gitignore", "hg": "hgignore", "docker": "dockerignore"}[tool]
        home_on = runner.make_home(sc, config="%s = true\n" % cfgkey, name="home-on")
        subdirs = [d for d in dirs if d and d not in ignored and not any(p in ignored for p in prefixes(d))]
        ignored_dirs = [d for d in dirs if d and (d in ignored or any(p in ignored for p in prefixes(d)))]
        for qi in range(job["queries"]):
            spelling = rng.choice(["dot", "rel-outside", "abs", "subdir", "subdir-abs", "rel-inside", "ignored-subdir", "rx-root"])
            sub = ""
            if spelling == "dot":
                cwd, frm = repo, "."
            elif spelling == "rel-outside":
                cwd, frm = w, "repo"
            elif spelling == "rx-root":
                # the root written as a pattern (`regexp` / `rx` root option): the ignore options belong to the directories it stands for
                cwd, frm = w, rng.choice(["'rep[o]' rx", "'r.*o' regexp", "'rep?o*' rx"])
            elif spelling == "abs":
                cwd, frm = w, repo
            elif spelling == "ignored-subdir":
                # the search starts inside a directory that the ignore file excludes: everything below it is ignored
                if not ignored_dirs:
                    continue
                sub = rng.choice(ignored_dirs)
                if not os.listdir(os.path.join(repo, sub)):
                    continue
                cwd, frm = rng.choice([(repo, sub), (w, os.path.join(repo, sub)), (os.path.join(repo, sub), ".")])
            elif spelling == "rel-inside":
                if not subdirs:
                    continue
                cwd = os.path.join(repo, rng.choice(subdirs))
                frm = os.path.relpath(repo, cwd)
            else:
                if not subdirs:
                    continue
                sub = rng.choice(subdirs)
                if spelling == "subdir":
                    cwd, frm = repo, sub
                else:
                    cwd, frm = w, os.path.join(repo, sub)
            mode = rng.choice(["option", "option", "config", "override", "off"])
            h = home
            if mode == "option":
                o = " " + rng.choice(opt)
                active = True
            elif mode == "config":
                o, h, active = "", home_on, True
            elif mode == "override":
                o, h, active = " " + rng.choice(noopt), home_on, False
            else:
                o, active = "", False
            trav = rng.choice(["", " dfs"])
            query = "path from %s%s%s into list" % (frm, o, trav)
            r = runner.run([query], cwd=cwd, home=h)
            res.ev()
            ctx = {"query": query, "cwd": os.path.relpath(cwd, w), "tool": tool, "ignore_file": lines, "mode": mode, "result": r.brief()}
            if r.verdict != "ok":
                res.viol("`%s` %s" % (query, r.verdict), ctx) if r.verdict in ("busy", "blocked") else res.inc("watchdog")
                continue
            if r.panicked or r.rc != 0 or r.err:
                res.viol("`%s`: status %s stderr %r" % (query, r.rc, r.err[:200]), ctx)
                continue
            got = set()
            for x in r.rows():
                a = os.path.normpath(os.path.join(cwd, x))
                got.add(os.path.relpath(a, repo))
            universe = [x for x in rels if (not sub or x.startswith(sub + "/"))]
            want = set(x for x in universe if not (active and x in ignored))
            got = set(x for x in got if not (x == ".git" or x.startswith(".git/") or x == ".hg" or x.startswith(".hg/")))
            if got != want:
                wrongly_omitted = sorted(want - got)
                wrongly_listed = sorted(got - want)
                ctx["wrongly_omitted"] = wrongly_omitted[:8]
                ctx["wrongly_listed"] = wrongly_listed[:8]
                sig = None
                if tool == "git" and active and ignored_quirk is not None and not (got - set(universe)):
                    unis = set(universe)
                    key = classify(set(x for x in universe if x not in got), {k: v & unis for k, v in ignored_quirk.items()})
                    if key:
                        sig = "+".join(sorted(key))
                res.viol("%s %s (%s, root %s): %d entries wrongly omitted (e.g. %s), %d wrongly listed (e.g. %s); ignore file: %s" % (
                    tool, "on" if active else "off", mode, spelling, len(wrongly_omitted), wrongly_omitted[:2], len(wrongly_listed),
                    wrongly_listed[:2], [l for l in lines if l][:6]), ctx, sig=sig)
                continue
            res.cover("spelling_mode", "%s %s" % (spelling, mode))
            res.cover("tools", tool)
            if active and ignored & set(universe) and want:
                res.nt("%s|%s|%s|%s" % (tool, "\n".join(lines), spelling, mode))
            res.sample({"tool": tool, "ignore_file": [l for l in lines if l][:6], "query": query, "listed": len(got), "ignored": len(set(universe) - want)}, cap=3)
    finally:
        runner.rm_scratch(sc)
    return res


def main(chk):
    quick = chk.tier == "quick"
    n = 2400 if quick else 9600
    tools = job_tools(chk)
    jobs = [{"id": "j%d" % i, "seed": job_seed(chk.seed, "C20", i), "tool": tools[i % len(tools)], "queries": 5 if quick else 8} for i in range(n)]
    if not quick:
        jobs += chk.shard(jobs[:150], "asan", 150) + chk.shard([dict(j, queries=2) for j in jobs[150:162]], "valgrind", 12)
    chk.run_jobs(jobs, budget_s=420 if quick else 3000)
    return chk.finish(
        rule="generated repositories (2-7 directories, 6-22 files) x ignore files from the generated subset (literal names, *.ext, dir/, "
             "dir/*.ext, **/name, ?, /rooted, comments, blank lines, !negations for git and docker, syntax: glob|regexp sections and regexps "
             "for hg; a nested .gitignore in 40% of the git cases) x root spelled '.', relative from outside, relative from inside (../..), "
             "absolute, a sub-directory of the repository (relative and absolute: ignore file in an ancestor) x option / configuration "
             "default / no... override / off x bfs/dfs. git's verdict comes from `git check-ignore --no-index`, hg and docker from "
             "reference matchers. Non-trivial = the ignore file hides >= 1 entry of the searched part and something is left; distinct by "
             "(tool, ignore file, spelling, mode).",
        assumptions=["git 2.39 `check-ignore --no-index` with a private HOME is the git oracle; .git/.hg themselves are excluded from the comparison",
                     "hg / docker reference matchers (fsv/checks/c20.py) implement DESIGN.md Appendix A for the generated subset only",
                     "negations never target a path inside an excluded directory"],
        require={"spelling_mode": 20, "tools": 3},
    )


def job_tools(chk):
    return ["git", "hg", "docker", "git", "hg", "docker", "git-container", "hg-two-scopes", "docker-two-scopes"]
