"""C12 - glob, LIKE, exact and regex matching agree with their textbook definitions."""
import os
import random
import re
import warnings

from .. import model, runner
from ..core import JobResult, job_seed

LETTERS = "abcxyzABCXYZ"
DIGITS = "0189"
META = ".+()[]{}|^$-,'#~%_\\ "
EXOTIC = "日€§\n\t"

POS = {"=": "!=", "like": "notlike", "===": "!==", "=~": "!=~"}
ALIASES = {"=": ["=", "==", "eq"], "!=": ["!=", "<>", "ne"], "like": ["like", "LIKE"],
           "notlike": ["notlike", "not like", "NOT LIKE"], "===": ["===", "eeq"], "!==": ["!==", "ene"],
           "=~": ["=~", "~=", "regexp", "rx"], "!=~": ["!=~", "!~=", "notrx"]}


def gen_names(rng, n):
    names = set()
    stems = []
    while len(names) < n:
        c = rng.random()
        if c < 0.35 and stems:
            # a sibling of an existing name: edit one character / change case / append
            b = rng.choice(stems)
            i = rng.randrange(len(b))
            metas = [k for k, ch in enumerate(b) if ch in META]
            if metas and rng.random() < 0.6:
                # near miss for a literal metacharacter: same name with that character replaced by something else
                i = rng.choice(metas)
            nm = rng.choice([b[:i] + rng.choice(LETTERS + META) + b[i + 1:], b.swapcase(), b + rng.choice(LETTERS + META),
                             b[:i] + b[i + 1:] or "q"])
        else:
            ln = rng.choice([1, 2, 3, 4, 5, 6, 8, 12, 12, 40, 64, 130])
            if ln >= 40 and rng.random() < 0.5:
                nm = "".join(rng.choice("0123456789abcdef") for _ in range(ln))       # digest-like names: patterns of 40+ wildcards
            else:
                nm = "".join(rng.choice(LETTERS * 3 + DIGITS + META * 2 + EXOTIC) for _ in range(ln))
        nm = nm.strip(" ") or "n"
        if nm in (".", "..") or "/" in nm or nm in names or len(nm.encode()) > 200:
            continue
        # at most one kind of quote character is ' (in the alphabet) - fine for quoting
        names.add(nm)
        stems.append(nm)
    return sorted(names)


def derive_pattern(rng, name, many, one):
    c = rng.random()
    p = name
    if c < 0.25:
        i = rng.randrange(len(p) + 1)
        j = rng.randrange(i, len(p) + 1)
        p = p[:i] + many + p[j:]
    elif c < 0.45:
        i = rng.randrange(len(p))
        p = p[:i] + one + p[i + 1:]
    elif c < 0.55:
        p = many + p[rng.randrange(len(p)):]
    elif c < 0.65:
        p = p[:rng.randrange(1, len(p) + 1)] + many
    elif c < 0.72:
        p = one * len(p)
    elif c < 0.8:
        i = rng.randrange(len(p))
        p = p[:i] + rng.choice(LETTERS + META) + p[i + 1:]
    if rng.random() < 0.3:
        p = p.swapcase()
    if rng.random() < 0.15:
        i = rng.randrange(len(p) + 1)
        p = p[:i] + rng.choice([many, one, many + one]) + p[i:]
    return p


def derive_regex(rng, name):
    e = model.rx_escape
    c = rng.random()
    if c < 0.2:
        return "^" + e(name) + "$"
    if c < 0.35:
        i = rng.randrange(len(name))
        return e(name[i:i + rng.randint(1, 3)])
    if c < 0.5:
        i = rng.randrange(len(name))
        return "^" + e(name[:i]) + ".*" + e(name[i + 1:]) + "$"
    if c < 0.6:
        i = rng.randrange(len(name))
        return "^" + e(name[:i]) + "." + e(name[i + 1:]) + "$"
    if c < 0.7:
        ch = name[rng.randrange(len(name))]
        if ch in "]^-\\[":
            return e(ch)
        return "[" + ch + "xq]"
    if c < 0.8:
        return "^[a-cA-C0-9]"
    if c < 0.9:
        return e(name[-2:]) + "$"
    return "^[^a-z]+$"


def rx_dialects_agree(pat):
    """Python's `re` is the textbook matcher for =~ only where it and Rust's regex crate read the pattern alike. They do not for:
    set operators inside a character class (`--`, `~~`, `&&`), a `[` inside a class (nested class / POSIX class in Rust, a
    literal in Python), and a quantifier followed by `+` (possessive in Python >= 3.11, a nested repetition in Rust)."""
    i, n, in_class, first = 0, len(pat), False, False
    while i < n:
        c = pat[i]
        if c == "\\":
            i += 2
            first = False
            continue
        if in_class:
            if c == "]" and not first:
                in_class = False
            elif c == "[":
                return False
            elif pat[i:i + 2] in ("--", "~~", "&&"):
                return False
            first = False
        else:
            if c == "[":
                in_class, first = True, True
                if pat[i + 1:i + 2] == "^":
                    i += 1
            elif c in "?*+}" and pat[i + 1:i + 2] == "+":
                return False
        i += 1
    return True


def rx_compile(pat):
    if not rx_dialects_agree(pat):
        raise re.error("the two regex dialects read this pattern differently")
    with warnings.catch_warnings():
        # "Possible nested set / set difference ...": Python itself flags the class syntax that other dialects read differently
        warnings.simplefilter("error", FutureWarning)
        # `$` in Rust's dialect is the end of the text; Python's also matches before a final line feed: use \Z for it
        out, i, in_class = [], 0, False
        while i < len(pat):
            c = pat[i]
            if c == "\\" and i + 1 < len(pat):
                out.append(pat[i:i + 2])
                i += 2
                continue
            if in_class:
                in_class = c != "]" or out[-1] in ("[", "[^")
            elif c == "[":
                in_class = True
                if pat[i + 1:i + 2] == "^":
                    out.append("[^")
                    i += 2
                    continue
            elif c == "$":
                out.append("\\Z")
                i += 1
                continue
            out.append(c)
            i += 1
        try:
            return re.compile("".join(out))
        except FutureWarning as e:
            raise re.error(str(e))


def expected(op, pat, names, quirk=None):
    if op in ("=", "!="):
        m = set(n for n in names if (model.glob_match(pat, n) if model.is_glob(pat) else n == pat))
    elif op in ("like", "notlike"):
        if quirk == "like_qmark_is_optional_any":
            m = set(n for n in names if model.wild_match(pat, n, "%", "_", opt="?"))
        else:
            m = set(n for n in names if model.like_match(pat, n))
    elif op in ("===", "!=="):
        m = set(n for n in names if n == pat)
    else:
        rx = rx_compile(pat)
        m = set(n for n in names if rx.search(n))
    if op in ("!=", "notlike", "!==", "!=~"):
        return set(names) - m
    return m


_FROM = ["d"]


_POOL = []


def run_query(res, w, home, cond, trace=False):
    q = "name from %s where %s into list" % (_FROM[0], cond)
    _POOL.append(q)
    r = runner.run([q], cwd=w, home=home, trace=trace)
    res.ev()
    return q, r


def monitor_rx(res, r, ctx):
    """O3 `rx` events: a cached regex reused for a lookup must have been compiled for the same operator class."""
    compiled = {}
    n = 0
    for ev in r.events:
        if ev["ev"] != "rx":
            continue
        n += 1
        cls = ev["cls"]
        src = ev["source"]
        if cls in ("glob", "like"):
            if src and not ((src.startswith("^(?i)") or src.startswith("^(?si)") or src.startswith("^(?is)")) and src.endswith("$")):
                res.viol("hook rx: %s pattern %r compiled to unanchored / case-sensitive regex %r" % (cls, ev["pattern"], src), ctx)
        elif cls == "rx":
            if src and src != ev["pattern"]:
                res.viol("hook rx: regex operator on %r used the compiled source %r" % (ev["pattern"], src), ctx)
        key = (cls, ev["pattern"])
        if src:
            if key in compiled and compiled[key] != src:
                res.viol("hook rx: two different compiled sources for %r" % (key,), ctx)
            compiled[key] = src
    res.count("hook_rx_events", n)


def run_job(job):
    res = JobResult()
    rng = random.Random(job["seed"])
    sc = runner.new_scratch("c12")
    try:
        w = runner.work_dir(sc)
        home = runner.make_home(sc)
        d = os.path.join(w, "d")
        os.mkdir(d)
        del _POOL[:]
        names = gen_names(rng, job["names"])
        names = sorted(set(names) | set(rng.sample(["~", "~a", "a~", "-", "--", ".x", " x", "x ", "%", "_", "*", "?", "\\", "[2020] report.txt", "[a.zip] b", "[x] y",
                                                        "(1) copy", "{k} v"], 5)))   # one-character and edge names
        # every third job spreads the names over two search roots (one of them searched depth-first): matching is per entry
        two = job.get("two_roots", False)
        _FROM[0] = rng.choice(["d, e", "e dfs, d", "d, e dfs"]) if two else "d"
        os.mkdir(os.path.join(w, "e"))
        for k, nm in enumerate(names):
            with open(os.path.join(w, "e" if two and k % 4 == 0 else "d", nm), "w"):
                pass
        names = sorted(os.listdir(d) + os.listdir(os.path.join(w, "e")))
        res.cover("from", _FROM[0])
        nameset = set(names)
        for qi in range(job["queries"]):
            pos = rng.choice(list(POS))
            base = rng.choice(names)
            if pos == "=":
                pat = derive_pattern(rng, base, "*", "?")
            elif pos == "like":
                pat = derive_pattern(rng, base, "%", "_")
                if rng.random() < 0.1:
                    i = rng.randrange(len(pat) + 1)
                    pat = pat[:i] + "?" + pat[i:]
            elif pos == "===":
                pat = rng.choice([base, base, base.swapcase(), base + "*", base[:-1] + "?", base + "%"])
            else:
                pat = derive_regex(rng, base)
                try:
                    rx_compile(pat)
                except re.error:
                    continue
            if rng.random() < 0.03:
                pat = ""          # the empty pattern: matches no name (every name under =~)
            try:
                lit = model.quote_lit(pat)
            except ValueError:
                continue
            pair = rng.random() < 0.2
            results = {}
            ok = True
            for op in (pos, POS[pos]):
                spelled = rng.choice(ALIASES[op])
                cond = "name %s %s" % (spelled, lit)
                q, r = run_query(res, w, home, cond, trace=(qi % 5 == 0))
                ctx = {"query": q, "names": names, "result": r.brief()}
                if r.verdict != "ok":
                    if r.verdict == "busy":
                        res.viol("busy loop on `%s`" % cond, ctx)
                    else:
                        res.inc("watchdog")
                    ok = False
                    continue
                if r.rc != 0 or r.err or r.panicked:
                    res.viol("`%s`: status %s stderr %r" % (cond, r.rc, r.err[:150]), ctx)
                    ok = False
                    continue
                got = set(r.rows())
                results[op] = got
                exp = expected(op, pat, names)
                if got != exp:
                    sig = None
                    if op in ("like", "notlike") and "?" in pat and got == expected(op, pat, names, "like_qmark_is_optional_any"):
                        sig = "like_qmark_is_optional_any"
                    ctx["wrongly_returned"] = sorted(got - exp)[:6]
                    ctx["wrongly_omitted"] = sorted(exp - got)[:6]
                    res.viol("`%s`: returned %s, textbook matcher says %s" % (
                        cond, sorted(got - exp)[:3] and "extra " + repr(sorted(got - exp)[:3]) or "too few",
                        "missing " + repr(sorted(exp - got)[:3]) if exp - got else "fewer"), ctx, sig=sig)
                    ok = False
                else:
                    kind = "wild" if ((op in ("=", "!=") and model.is_glob(pat)) or (op in ("like", "notlike") and ("%" in pat or "_" in pat))) else "plain"
                    res.cover("op_kind", "%s %s" % (op, kind))
                    res.cover("op_spelling", spelled)
                    if 0 < len(exp) < len(names):
                        res.nt("%s|%s" % (op, pat))
                    for ch in pat:
                        if ch in META and ch not in "*?%_":
                            res.cover("literal_metachar_in_pattern", "%s %s" % (model.canon_op(op) if op not in ("notlike",) else op, ch))
                if r.events:
                    monitor_rx(res, r, ctx)
            if ok and len(results) == 2:
                a, b = results[pos], results[POS[pos]]
                if (a | b) != nameset or (a & b):
                    res.viol("`%s` and `%s` on %r are not complementary" % (pos, POS[pos], pat), {"pattern": pat, "names": names})
                res.sample({"pattern": pat, "op": pos, "matched": sorted(a)[:5], "of": len(names)}, cap=3)
            if rng.random() < 0.15:
                # two clauses whose pattern texts differ only in letter case
                o = rng.choice(["=~", "!=~", "like", "=", "==="])
                p2 = pat.swapcase()
                if p2 != pat and "\\" not in pat:
                    try:
                        if o in ("=~", "!=~"):
                            rx_compile(pat)
                            rx_compile(p2)
                        e1, e2 = expected(o, pat, names), expected(o, p2, names)
                        conn = rng.choice(["or", "and"])
                        cond = "name %s %s %s name %s %s" % (o, lit, conn, o, model.quote_lit(p2))
                        q, r = run_query(res, w, home, cond, trace=True)
                        ctx = {"query": q, "names": names, "result": r.brief()}
                        if r.verdict == "ok" and r.rc == 0 and not r.err:
                            got = set(r.rows())
                            exp = (e1 | e2) if conn == "or" else (e1 & e2)
                            if got != exp:
                                sig = None
                                if o == "like" and "?" in pat:
                                    q1 = expected(o, pat, names, "like_qmark_is_optional_any")
                                    q2 = expected(o, p2, names, "like_qmark_is_optional_any")
                                    if got == ((q1 | q2) if conn == "or" else (q1 & q2)):
                                        sig = "like_qmark_is_optional_any"
                                ctx["wrongly_returned"] = sorted(got - exp)[:6]
                                ctx["wrongly_omitted"] = sorted(exp - got)[:6]
                                res.viol("`%s`: two clauses differing only in letter case disagree with the textbook result (+%d/-%d)" % (
                                    cond, len(got - exp), len(exp - got)), ctx, sig=sig)
                            else:
                                res.cover("case_pair_kinds", o)
                            monitor_rx(res, r, ctx)
                        elif r.verdict == "ok" and not (r.rc == 2 and b"regex" in r.err):
                            res.viol("`%s`: status %s stderr %r" % (cond, r.rc, r.err[:150]), ctx)
                    except (re.error, ValueError):
                        pass
            if pair:
                # two operator kinds with the same pattern text in one query (shared regex cache)
                o1, o2 = rng.sample(["=", "like", "=~", "!=", "notlike", "!=~"], 2)
                conn = rng.choice(["or", "and"])
                try:
                    if "=~" in (o1, o2) or "!=~" in (o1, o2):
                        rx_compile(pat)
                    e1, e2 = expected(o1, pat, names), expected(o2, pat, names)
                except re.error:
                    continue
                cond = "name %s %s %s name %s %s" % (o1, lit, conn, o2, lit)
                q, r = run_query(res, w, home, cond, trace=True)
                ctx = {"query": q, "names": names, "result": r.brief()}
                if r.verdict != "ok" or r.rc != 0 or r.err:
                    # a LIKE/glob text need not be a valid regex for Rust: only judge clean runs
                    if r.verdict == "ok" and r.rc == 2 and (b"regex" in r.err):
                        res.count("pair_pattern_rejected_as_regex")
                    elif r.verdict == "ok":
                        res.viol("`%s`: status %s stderr %r" % (cond, r.rc, r.err[:150]), ctx)
                    continue
                got = set(r.rows())
                exp = (e1 | e2) if conn == "or" else (e1 & e2)
                if got != exp:
                    sig = None
                    if "?" in pat and ("like" in (o1, o2) or "notlike" in (o1, o2)):
                        q1 = expected(o1, pat, names, "like_qmark_is_optional_any")
                        q2 = expected(o2, pat, names, "like_qmark_is_optional_any")
                        if got == ((q1 | q2) if conn == "or" else (q1 & q2)):
                            sig = "like_qmark_is_optional_any"
                    ctx["wrongly_returned"] = sorted(got - exp)[:6]
                    ctx["wrongly_omitted"] = sorted(exp - got)[:6]
                    res.viol("`%s`: two operator kinds sharing one pattern text disagree with the textbook result (+%d/-%d)" % (
                        cond, len(got - exp), len(exp - got)), ctx, sig=sig)
                else:
                    res.cover("pair_kinds", "%s+%s" % tuple(sorted((o1, o2))))
                monitor_rx(res, r, ctx)
        # history: the same conditions in one interactive session (`fselect -i`), one process, one after the other
        if len(_POOL) >= 2:
            runner.session_matches(res, rng.sample(_POOL, min(5, len(_POOL))), w, home, "pattern conditions")
    finally:
        runner.rm_scratch(sc)
    return res


def main(chk):
    quick = chk.tier == "quick"
    n = 800 if quick else 2400
    jobs = [{"id": "d%d" % i, "seed": job_seed(chk.seed, "C12", i), "names": 28, "queries": 22 if quick else 50, "two_roots": i % 3 == 2}
            for i in range(n)]
    chk.run_jobs(jobs, budget_s=300 if quick else 3000)
    return chk.finish(
        rule="directories of ~28 names over letters (both cases), digits, space and . + ( ) [ ] { } | ^ $ - , ' # ~ % _ \\ ; patterns derived "
             "from the names (wildcard substitution, case change, one-character edit, literal metacharacters); each pattern is run with the "
             "positive and the negative operator (all documented spellings) and both results are compared with a wildcard-DP / literal / "
             "Python-re reference and with each other (complementarity); 20% of cases add a query using two operator kinds with the same "
             "pattern text. Non-trivial = pattern selects a proper non-empty subset; distinct by (operator, pattern).",
        assumptions=["regex operators are judged on a sub-language (escaped literals, ., .*, ^, $, character classes) where Python re and Rust regex agree",
                     "case-insensitive matching is exercised with ASCII letters only",
                     "pattern text is always quoted; an empty pattern cannot be expressed in the query language"],
        require={"op_kind": 12, "literal_metachar_in_pattern": 60},
    )
