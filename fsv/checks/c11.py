"""C11 - documented alternative spellings of a query denote the same query (metamorphic on the parsed Query dump + rows)."""
import itertools
import os
import random
import re

from .. import runner
from ..core import JobResult, job_seed

# ---- alias tables from docs/usage.md ---------------------------------------------------------
OP_GROUPS = [["=", "==", "eq"], ["!=", "<>", "ne"], ["===", "eeq"], ["!==", "ene"], [">", "gt"], [">=", "gte", "ge"],
             ["<", "lt"], ["<=", "lte", "le"], ["=~", "~=", "regexp", "rx"], ["!=~", "!~=", "notrx"], ["like"],
             ["notlike", "not like"]]
COL_GROUPS = [["ext", "extension"], ["dir", "dirname", "directory"], ["fsize", "hsize"], ["is_pipe", "is_fifo"],
              ["is_char", "is_character"], ["user_all", "user_rwx"], ["group_all", "group_rwx"], ["other_all", "other_rwx"],
              ["caps", "capabilities"], ["sha256", "sha2_256"], ["sha512", "sha2_512"], ["sha3", "sha3_512"],
              ["bitrate", "mp3_bitrate"], ["freq", "mp3_freq"], ["title", "mp3_title"], ["artist", "mp3_artist"],
              ["album", "mp3_album"], ["genre", "mp3_genre"], ["exif_alt", "exif_altitude"], ["exif_lat", "exif_latitude"],
              ["exif_lon", "exif_lng", "exif_longitude"],
              ["name"], ["path"], ["size"], ["modified"], ["mode"], ["uid"], ["is_dir"], ["is_file"], ["hardlinks"], ["abspath"],
              ["is_hidden"], ["user_read"], ["line_count"], ["sha1"], ["is_archive"], ["is_source"], ["width"], ["mime"]]
FN_GROUPS = [["lower", "lowercase", "lcase"], ["upper", "uppercase", "ucase"], ["length", "len"], ["to_base64", "base64"],
             ["power", "pow"], ["contains_japanese", "japanese"], ["contains_kana", "kana"], ["contains_hiragana", "hiragana"],
             ["contains_katakana", "katakana"], ["contains_kanji", "kanji"], ["substr", "substring"],
             ["format_size", "format_filesize"], ["format_time", "pretty_time"], ["dayofweek", "dow"], ["initcap"], ["trim"],
             ["abs"], ["hex"], ["year"], ["month"], ["day"], ["concat"], ["coalesce"], ["replace"]]
AGG_GROUPS = [["stddev_pop", "stddev", "std"], ["var_pop", "variance"], ["count"], ["sum"], ["min"], ["max"], ["avg"],
              ["stddev_samp"], ["var_samp"]]
NOARG_GROUPS = [["current_date", "cur_date", "curdate"], ["current_uid"], ["current_user"], ["current_gid"], ["current_group"]]
ROOTOPT_GROUPS = [["maxdepth", "depth"], ["symlinks", "sym"], ["archives", "arc"], ["gitignore", "git"], ["hgignore", "hg"],
                  ["dockerignore", "dock"], ["nogitignore", "nogit"], ["nohgignore", "nohg"], ["nodockerignore", "nodock"],
                  ["bfs"], ["dfs"], ["mindepth"], ["regexp", "rx"]]
ARITH_GROUPS = [["+", "plus"], ["-", "minus"], ["*", "mul"], ["/", "div"], ["%", "mod"]]
FORMATS = ["tabs", "lines", "list", "csv", "json", "html"]


def group_of(groups, word):
    for g in groups:
        if word in g:
            return g
    return [word]


class Tok:
    __slots__ = ("kind", "text", "group", "glue")

    def __init__(self, kind, text, group=None, glue=""):
        self.kind = kind      # kw col fn op rootopt arith fmt lit path num punct noargfn agg
        self.text = text
        self.group = group or [text]
        self.glue = glue      # "" normal, "L" no space before, "R" no space after

    def copy(self, text=None):
        return Tok(self.kind, self.text if text is None else text, self.group, self.glue)


def T(kind, text, groups=None, glue=""):
    return Tok(kind, text, group_of(groups, text) if groups else None, glue)


def gen_col(rng):
    """A select-list item as a token list, and whether it is 'simple' (safe without commas)."""
    c = rng.random()
    if c < 0.45:
        g = rng.choice(COL_GROUPS)
        return [T("col", g[0], COL_GROUPS)], True
    if c < 0.7:
        f = rng.choice(FN_GROUPS)[0]
        inner = rng.choice(["name", "path", "ext", "size", "modified"])
        toks = [T("fn", f, FN_GROUPS, "R"), Tok("open", "(", glue="LR"), T("col", inner, COL_GROUPS)]
        if f in ("substr", "replace", "concat", "power", "coalesce", "format_size"):
            extra = {"substr": ["1", "2"], "replace": ["'a'", "'b'"], "concat": ["'-x'"], "power": ["2"],
                     "coalesce": ["'none'"], "format_size": ["'%.1'"]}[f]
            for e in extra:
                toks += [Tok("punct", ",", glue="L"), Tok("lit", e)]
        toks.append(Tok("close", ")", glue="L"))
        return toks, True
    if c < 0.85:
        a = rng.choice(ARITH_GROUPS)
        return [T("col", rng.choice(["size", "uid", "hardlinks"])), T("arith", a[0], ARITH_GROUPS), Tok("num", str(rng.choice([1, 2, 7, 100])))], False
    g = rng.choice(NOARG_GROUPS)
    return [T("noargfn", g[0], NOARG_GROUPS, "R"), Tok("open", "(", glue="LR"), Tok("close", ")", glue="L")], True


def gen_cond(rng, depth=2):
    c = rng.random()
    if depth > 0 and c < 0.3:
        conn = rng.choice(["and", "or"])
        l, r = gen_cond(rng, depth - 1), gen_cond(rng, depth - 1)
        toks = l + [Tok("kw", conn)] + r
        if rng.random() < 0.6:
            toks = [Tok("open", "(", glue="R")] + toks + [Tok("close", ")", glue="L")]
        return toks
    if depth > 0 and c < 0.4:
        return [Tok("kw", "not")] + gen_cond(rng, 0)
    if c < 0.5:
        return [T("col", rng.choice(["is_dir", "is_file", "is_hidden", "user_read"]), COL_GROUPS)]
    if c < 0.6:
        return [T("col", rng.choice(["size", "uid", "hardlinks"])), Tok("kw", "between"), Tok("num", str(rng.choice([0, 1, 5]))),
                Tok("kw", "and"), Tok("num", str(rng.choice([10, 100, 5000])))]
    og = rng.choice(OP_GROUPS)
    op = og[0]
    if op in ("=~", "!=~"):
        lhs, lit = [T("col", "name", COL_GROUPS)], rng.choice(["'^a'", "'t$'", "'[0-9]'"])
    elif op in ("like", "notlike"):
        lhs, lit = [T("col", rng.choice(["name", "ext"]), COL_GROUPS)], rng.choice(["'%a%'", "'t_t'", "'%.txt'", "'%y f%'", "'my %'"])
    elif op in (">", ">=", "<", "<="):
        lhs, lit = [T("col", rng.choice(["size", "uid", "hardlinks"]))], str(rng.choice([0, 1, 5, 100, "1k"]))
    else:
        k = rng.random()
        if k < 0.4:
            lhs, lit = [T("col", rng.choice(["name", "ext", "dir"]), COL_GROUPS)], rng.choice(["'txt'", "'a.txt'", "'*.txt'", "'t'", "'my file.txt'", "'a b c'", "\"my file.txt\"", "'my*'"])
        elif k < 0.7:
            lhs, lit = [T("col", rng.choice(["size", "uid"]))], str(rng.choice([0, 5, 12]))
        elif k < 0.85:
            lhs, lit = [T("col", rng.choice(["is_dir", "is_file"]))], rng.choice(["true", "false", "1", "0"])
        else:
            f = rng.choice(["lower", "length", "upper"])
            lhs = [T("fn", f, FN_GROUPS, "R"), Tok("open", "(", glue="LR"), T("col", "name", COL_GROUPS), Tok("close", ")", glue="L")]
            lit = "3" if f == "length" else rng.choice(["'a.txt'", "'A.TXT'"])
    if " " in op:
        ops = [Tok("kw", "not"), T("op", "like")]
    else:
        ops = [Tok("op", op, og)]
    return lhs + ops + [Tok("lit", lit)]


def gen_query(rng):
    toks = []
    if rng.random() < 0.3:
        toks.append(Tok("select", "select"))
    grouped = rng.random() < 0.15
    simple_all = True
    key2 = None
    if grouped:
        key = rng.choice(["ext", "dir", "is_dir", "uid"])
        agg = rng.choice(AGG_GROUPS)[0]
        toks += [T("col", key, COL_GROUPS), Tok("comma", ",", glue="L")]
        if rng.random() < 0.4:
            # a second grouping key that is a function call or an arithmetic expression (after a comma, with or without WHERE)
            key2 = rng.choice([[T("fn", "length", FN_GROUPS, "R"), Tok("open", "(", glue="LR"), T("col", "name", COL_GROUPS), Tok("close", ")", glue="L")],
                               [T("fn", "lower", FN_GROUPS, "R"), Tok("open", "(", glue="LR"), T("col", "ext", COL_GROUPS), Tok("close", ")", glue="L")],
                               [T("col", "size"), T("arith", "%", ARITH_GROUPS), Tok("num", "2")]])
            toks += [t.copy() for t in key2] + [Tok("comma", ",", glue="L")]
        toks += [T("agg", agg, AGG_GROUPS, "R"), Tok("open", "(", glue="LR"),
                 (Tok("lit", "*") if agg == "count" and rng.random() < 0.7 else T("col", "size")), Tok("close", ")", glue="L")]
    else:
        n = rng.randint(1, 3)
        for i in range(n):
            if i:
                toks.append(Tok("comma", ",", glue="L"))
            ct, simple = gen_col(rng)
            simple_all = simple_all and simple
            toks += ct
    nroots = rng.choice([1, 1, 1, 2])
    toks.append(Tok("kw", "from"))
    for i in range(nroots):
        if i:
            toks.append(Tok("rootcomma", ",", glue="L"))
        toks.append(Tok("path", rng.choice(["t", "t/sub", "./t", "t/"]) if i == 0 else "t2"))
        for _ in range(rng.choice([0, 0, 1, 2])):
            g = rng.choice(ROOTOPT_GROUPS)
            toks.append(Tok("rootopt", g[0], g))
            if g[0] in ("maxdepth", "mindepth"):
                toks.append(Tok("num", str(rng.choice([1, 2, 3]))))
    if rng.random() < 0.7:
        toks.append(Tok("kw", "where"))
        toks += gen_cond(rng)
    if grouped:
        toks += [Tok("kw", "group"), Tok("kw", "by"), T("col", key, COL_GROUPS)]
        if key2:
            toks += [Tok("comma", ",", glue="L")] + [t.copy() for t in key2]
    if grouped or rng.random() < 0.5:
        toks += [Tok("kw", "order"), Tok("kw", "by")]
        for i in range(1 if grouped else rng.choice([1, 1, 2])):
            if i:
                toks.append(Tok("comma", ",", glue="L"))
            if grouped:
                toks.append(T("col", key, COL_GROUPS))
                if key2:
                    toks += [Tok("comma", ",", glue="L")] + [t.copy() for t in key2]
            else:
                toks.append(T("col", rng.choice(["name", "size", "path", "ext", "modified"]), COL_GROUPS) if rng.random() < 0.8 else Tok("num", "1"))
            d = rng.choice(["", "", "desc", "asc"])
            if d:
                toks.append(Tok("dir", d))
    if rng.random() < 0.4:
        toks += [Tok("kw", "limit"), Tok("num", str(rng.choice([1, 2, 5, 100])))]
    fmt = rng.choice(FORMATS + ["list", "list"])
    toks += [Tok("kw", "into"), Tok("fmt", fmt)]
    return toks, simple_all and not grouped


def directed_queries():
    """One minimal query per alias group of every documentation table, so that every alias is exercised."""
    out = []
    tail = [Tok("kw", "from"), Tok("path", "t"), Tok("kw", "into"), Tok("fmt", "list")]
    for g in COL_GROUPS:
        out.append([Tok("col", g[0], g)] + tail)
    for g in FN_GROUPS:
        args = {"substr": ["1", "2"], "replace": ["'a'", "'b'"], "power": ["2"], "format_size": ["'%.1'"]}.get(g[0], [])
        inner = "size" if g[0] in ("power", "format_size", "format_time", "abs", "hex") else "modified" if g[0] in ("year", "month", "day", "dayofweek") else "name"
        toks = [Tok("fn", g[0], g, "R"), Tok("open", "(", glue="LR"), Tok("col", inner)]
        for a in args:
            toks += [Tok("punct", ",", glue="L"), Tok("lit", a)]
        out.append(toks + [Tok("close", ")", glue="L")] + tail)
        # the same call where a sort key or a grouping key starts (a name with several spellings is one function there too)
        call = toks + [Tok("close", ")", glue="L")]
        out.append([Tok("col", "name"), Tok("kw", "from"), Tok("path", "t"), Tok("kw", "order"), Tok("kw", "by")] + call
                   + [Tok("comma", ",", glue="L"), Tok("col", "name"), Tok("kw", "into"), Tok("fmt", "list")])
        out.append([Tok("agg", "count", group_of(AGG_GROUPS, "count"), "R"), Tok("open", "(", glue="LR"), Tok("lit", "*"), Tok("close", ")", glue="L"),
                    Tok("kw", "from"), Tok("path", "t"), Tok("kw", "group"), Tok("kw", "by")] + call
                   # group rows come in no particular order: sorted by the only column, equal counts print equal rows
                   + [Tok("kw", "order"), Tok("kw", "by"), Tok("num", "1"), Tok("kw", "into"), Tok("fmt", "list")])
    for g in AGG_GROUPS:
        out.append([Tok("agg", g[0], g, "R"), Tok("open", "(", glue="LR"), Tok("col", "size"), Tok("close", ")", glue="L")] + tail)
    out.append([Tok("agg", "count", group_of(AGG_GROUPS, "count"), "R"), Tok("open", "(", glue="LR"), Tok("lit", "*"), Tok("close", ")", glue="L")] + tail)
    out.append([Tok("agg", "count", group_of(AGG_GROUPS, "count"), "R"), Tok("open", "(", glue="LR"), Tok("lit", "*"), Tok("close", ")", glue="L"),
                Tok("comma", ",", glue="L"), Tok("agg", "max", group_of(AGG_GROUPS, "max"), "R"), Tok("open", "(", glue="LR"), Tok("col", "size"),
                Tok("arith", "*", group_of(ARITH_GROUPS, "*")), Tok("num", "2"), Tok("close", ")", glue="L")] + tail)
    out.append([Tok("col", "name"), Tok("kw", "from"), Tok("path", "t"), Tok("kw", "where"), Tok("open", "(", glue="R"), Tok("col", "size"),
                Tok("arith", "%", group_of(ARITH_GROUPS, "%")), Tok("num", "2"), Tok("close", ")", glue="L"), Tok("op", "=", group_of(OP_GROUPS, "=")),
                Tok("num", "0"), Tok("kw", "into"), Tok("fmt", "list")])
    for g in NOARG_GROUPS:
        out.append([Tok("col", "name"), Tok("comma", ",", glue="L"), Tok("noargfn", g[0], g, "R"), Tok("open", "(", glue="LR"),
                    Tok("close", ")", glue="L")] + tail)
    for g in ROOTOPT_GROUPS:
        extra = [Tok("num", "2")] if g[0] in ("maxdepth", "mindepth") else []
        out.append([Tok("col", "path"), Tok("kw", "from"), Tok("path", "t"), Tok("rootopt", g[0], g)] + extra + [Tok("kw", "into"), Tok("fmt", "list")])
    for g in ARITH_GROUPS:
        out.append([Tok("col", "size"), Tok("arith", g[0], g), Tok("num", "7")] + tail)
        out.append([Tok("col", "name"), Tok("kw", "from"), Tok("path", "t"), Tok("kw", "where"), Tok("col", "size"), Tok("arith", g[0], g),
                    Tok("num", "3"), Tok("op", ">", group_of(OP_GROUPS, ">")), Tok("num", "4"), Tok("kw", "into"), Tok("fmt", "list")])
    for g in OP_GROUPS:
        lit = "'^a'" if g[0] in ("=~", "!=~") else "'%a%'" if g[0] in ("like", "notlike") else "5"
        col = "name" if lit.startswith("'") else "size"
        out.append([Tok("col", "name"), Tok("kw", "from"), Tok("path", "t"), Tok("kw", "where"), Tok("col", col), Tok("op", g[0], g),
                    Tok("lit", lit), Tok("kw", "into"), Tok("fmt", "list")])
    # dozens of bracketed terms in one condition (both bracket kinds must take them)
    for nterms in (34,):
        toks = [Tok("col", "name"), Tok("kw", "from"), Tok("path", "t"), Tok("kw", "where")]
        for k in range(nterms):
            if k:
                toks.append(Tok("kw", "or"))
            toks += [Tok("open", "(", glue="R"), Tok("col", "size"), Tok("op", "=", group_of(OP_GROUPS, "=")), Tok("num", str(k)), Tok("close", ")", glue="L")]
        out.append(toks + [Tok("kw", "into"), Tok("fmt", "list")])
    for lit in ("'my file.txt'", '"my file.txt"', "'a b c'", "`my file.txt`"):
        out.append([Tok("col", "path"), Tok("kw", "from"), Tok("path", "t"), Tok("kw", "where"), Tok("col", "name"), Tok("op", "=", group_of(OP_GROUPS, "=")),
                    Tok("lit", lit), Tok("kw", "into"), Tok("fmt", "list")])
    for f in FORMATS:
        out.append([Tok("col", "name"), Tok("comma", ",", glue="L"), Tok("col", "size"), Tok("kw", "from"), Tok("path", "t"), Tok("kw", "order"),
                    Tok("kw", "by"), Tok("col", "name"), Tok("kw", "into"), Tok("fmt", f)])
    return out


def render(toks):
    """Returns the list of 'words' (maximal runs without canonical spaces); joined by ' ' = one-argument form."""
    words = []
    cur = ""
    for i, t in enumerate(toks):
        if not cur:
            cur = t.text
        else:
            prev = toks[i - 1]
            if "L" in t.glue or "R" in prev.glue:
                cur += t.text
            else:
                words.append(cur)
                cur = t.text
    if cur:
        words.append(cur)
    # a blank inside a quoted literal is a split point like any other: `'my` `file.txt'` as two shell words is the same
    # literal (literals only occur after the search roots, so the word indices of the roots do not move)
    return [p for w_ in words for p in w_.split(" ")]


def split_args(words, mask):
    """mask bit i set = shell-word boundary after words[i]."""
    args, cur = [], words[0]
    for i in range(1, len(words)):
        if mask >> (i - 1) & 1:
            args.append(cur)
            cur = words[i]
        else:
            cur += " " + words[i]
    args.append(cur)
    return args


QUERY_RE = re.compile(r"\] &query = (Ok|Err)\(")


def parsed_dump(stderr):
    """The pretty-printed `&query = Ok(Query {..})` block written by the debug configuration."""
    text = stderr.decode("utf-8", "replace")
    idx = [m.start() for m in QUERY_RE.finditer(text)]
    if not idx:
        return None, text
    start = idx[-1]
    lines = text[start:].split("\n")
    out = [lines[0].split("] &query = ", 1)[1]]
    rest = []
    done = False
    for ln in lines[1:]:
        if not done and (ln.startswith(" ") or ln.startswith(")") or ln.startswith("}")):
            out.append(ln)
            if ln.startswith(")"):
                done = True
        else:
            done = True
            if not (ln.startswith("Search: ") or ln.startswith("Compute: ")):
                rest.append(ln)
    return "\n".join(out), "\n".join(rest).strip()


def case_variants(rng, text):
    vs = {text.upper(), text.capitalize(), "".join(rng.choice([c.lower(), c.upper()]) for c in text)}
    vs.discard(text)
    return sorted(vs)


WORD_KINDS = ("kw", "col", "fn", "agg", "noargfn", "rootopt", "fmt", "dir", "select")


def variants(rng, toks, simple_cols, thorough):
    """Yields (label, args list) for every rendering to be compared with the canonical one."""
    words = render(toks)
    gaps = len(words) - 1
    # (a) whitespace split points. With several shell words, a word that starts a search root runs to the end of
    # its shell word by design (that is how unquoted paths with spaces are passed), so a split set is a spelling of
    # the same query only if every root path ends its shell word: those boundaries are forced.
    forced = 0
    wi = 0
    cur = ""
    path_words = set()
    for i, t in enumerate(toks):
        if i and not ("L" in t.glue or "R" in toks[i - 1].glue):
            wi += 1
        if t.kind == "path":
            path_words.add(wi)
    for wi in path_words:
        if wi < gaps:
            forced |= 1 << wi
    free = [i for i in range(gaps) if not forced >> i & 1]
    if len(free) <= 8:
        masks = set()
        for bits in range(1 << len(free)):
            m = forced
            for k, i in enumerate(free):
                if bits >> k & 1:
                    m |= 1 << i
            masks.add(m)
    else:
        masks = set([(1 << gaps) - 1, forced] + [rng.getrandbits(gaps) | forced for _ in range(60 if thorough else 24)]
                    + [forced | 1 << i for i in range(gaps)])
    masks.discard(0)
    for m in sorted(masks):
        yield "split:%x" % m, split_args(words, m)
    # (b) letter case of every word token, one at a time (and all upper at once)
    for i, t in enumerate(toks):
        if t.kind in WORD_KINDS or (t.kind in ("op", "arith") and t.text.isalpha()):
            for v in case_variants(rng, t.text):
                tt = list(toks)
                tt[i] = t.copy(v)
                yield "case:%s->%s" % (t.text, v), [" ".join(render(tt))]
    allup = [t.copy(t.text.upper()) if (t.kind in WORD_KINDS or (t.kind in ("op", "arith") and t.text.isalpha())) else t for t in toks]
    yield "case:ALL-UPPER", [" ".join(render(allup))]
    # (c) every documented alias, one substitution at a time
    for i, t in enumerate(toks):
        if len(t.group) > 1:
            for alt in t.group:
                if alt == t.text:
                    continue
                tt = list(toks)
                if " " in alt:   # `not like`
                    tt[i:i + 1] = [Tok("kw", "not"), Tok("op", "like")]
                else:
                    tt[i] = t.copy(alt)
                yield "alias:%s->%s" % (t.text, alt), [" ".join(render(tt))]
    # random alias combination + random splitting
    for _ in range(6 if thorough else 2):
        tt = [t.copy(rng.choice([a for a in t.group if " " not in a])) if len(t.group) > 1 else t for t in toks]
        w2 = render(tt)
        yield "alias:random-combination", [" ".join(w2)] if rng.random() < 0.5 else split_args(w2, (1 << (len(w2) - 1)) - 1)
    # (d) bracket style, optional tokens
    if any(t.kind == "open" for t in toks):
        tt = [t.copy("{") if t.kind == "open" else t.copy("}") if t.kind == "close" else t for t in toks]
        yield "brackets:curly", [" ".join(render(tt))]
    if toks[0].kind == "select":
        yield "optional:no-select", [" ".join(render(toks[1:]))]
    else:
        yield "optional:select", [" ".join(render([Tok("select", "select")] + toks))]
        yield "optional:SELECT", [" ".join(render([Tok("select", "SELECT")] + toks))]
    if simple_cols and any(t.kind == "comma" for t in toks):
        yield "optional:no-commas-between-columns", [" ".join(render([t for t in toks if t.kind != "comma" or toks.index(t) > [x.kind for x in toks].index("kw")]))]
    if any(t.kind == "kw" and t.text == "order" for t in toks):
        tt = []
        for i, t in enumerate(toks):
            if t.kind == "dir" and t.text == "asc":
                continue
            tt.append(t)
        if len(tt) != len(toks):
            yield "optional:asc-dropped", [" ".join(render(tt))]
        else:
            # add an explicit asc after the first key that has no direction
            oi = max(i for i, t in enumerate(toks) if t.kind == "kw" and t.text == "by")
            j = oi + 1
            if j < len(toks) and toks[j].kind in ("fn", "agg", "noargfn", "open"):
                # the key is a call: its end is the bracket that closes it
                depth = 0
                for k in range(j, len(toks)):
                    if toks[k].kind == "open":
                        depth += 1
                    elif toks[k].kind == "close":
                        depth -= 1
                        if depth == 0:
                            j = k
                            break
            if j < len(toks) and (j + 1 >= len(toks) or toks[j + 1].kind != "dir"):
                tt = toks[:j + 1] + [Tok("dir", "asc")] + toks[j + 1:]
                yield "optional:explicit-asc", [" ".join(render(tt))]
    for i, t in enumerate(toks):
        if t.kind == "noargfn":
            tt = toks[:i] + [t.copy()] + toks[i + 3:]
            tt[i].glue = ""
            yield "optional:no-parens-after-%s" % t.text, [" ".join(render(tt))]


def build_tree(w):
    for d in ("t", "t/sub", "t/sub/deep", "t2", "t/.git"):
        os.makedirs(os.path.join(w, d), exist_ok=True)
    files = {"t/a.txt": b"hello\nworld\n", "t/b.TXT": b"x", "t/sub/c.rs": b"fn main() {}\n", "t/sub/deep/d": b"",
             "t/.hidden": b"h", "t/my file.txt": b"m", "t/ÀÉÎ日本.txt": b"u", "t/sub/a b c": b"abc", "t2/my file.txt": b"mm", "t2/e.txt": b"12345", "t2/tot": b"tt", "t/.gitignore": b"*.rs\n", "t/sub/x.zip": b"PK\x05\x06" + b"\0" * 18}
    for p, c in files.items():
        with open(os.path.join(w, p), "wb") as f:
            f.write(c)
    os.symlink("a.txt", os.path.join(w, "t/lnk"))
    # extreme attributes: times before 1970 (whole second and fractional) and after 2262 (no huge sparse file here: the queries
    # of C10 / C11 read file contents)
    for nm, ns in (("t/sub/y1960", -315619200 * 10 ** 9), ("t/sub/y1961", -283996741 * 10 ** 9), ("t/sub/y1901", -2147483647 * 10 ** 9), ("t/sub/y1965f", -152668800 * 10 ** 9 - 500000000), ("t/sub/y2300", 10413792000 * 10 ** 9)):
        open(os.path.join(w, nm), "w").close()
        os.utime(os.path.join(w, nm), ns=(ns, ns))
    # entries whose content must never be opened: a FIFO without a writer, links to it and to an endless device
    os.mkfifo(os.path.join(w, "t/sub/pipe"))
    os.symlink("pipe", os.path.join(w, "t/sub/lpipe"))
    os.symlink("/dev/zero", os.path.join(w, "t/sub/lzero"))


def run_job(job):
    res = JobResult()
    rng = random.Random(job["seed"])
    sc = runner.new_scratch("c11")
    try:
        w = runner.work_dir(sc)
        home = runner.make_home(sc, config="debug = true\n")
        build_tree(w)

        def run(args):
            res.ev()
            return runner.run(args, cwd=w, home=home)

        directed = directed_queries()[job["lo"]:job["hi"]] if job.get("directed") else None
        for qi in range(len(directed) if directed is not None else job["queries"]):
            if directed is not None:
                toks, simple = directed[qi], True
            else:
                toks, simple = gen_query(rng)
            canon = " ".join(render(toks))
            r0 = run([canon])
            if r0.verdict != "ok":
                if r0.verdict == "busy":
                    res.viol("busy loop on `%s`" % canon, {"query": canon})
                else:
                    res.inc("watchdog")
                continue
            if r0.panicked:
                res.viol("panic on the canonical rendering `%s`: %s" % (canon, r0.err[-300:].decode("utf-8", "replace")), {"query": canon})
                continue
            d0, rest0 = parsed_dump(r0.err)
            if d0 is None:
                res.inc("no parsed-query dump on stderr for `%s`" % canon)
                continue
            base = (r0.rc, r0.out, d0)
            if not d0.startswith("Ok("):
                res.count("canonical_rejected")
            nvar = 0
            for label, args in variants(rng, toks, simple, job["thorough"]):
                if args == [canon]:
                    continue
                r = run(args)
                nvar += 1
                ctx = {"canonical": canon, "variant": args, "label": label, "canonical_result": r0.brief(), "result": r.brief()}
                if r.verdict != "ok":
                    if r.verdict == "busy":
                        res.viol("busy loop on rendering %s of `%s`" % (args, canon), ctx)
                    else:
                        res.inc("watchdog")
                    continue
                d, rest = parsed_dump(r.err)
                kind = label.split(":")[0]
                if r.panicked:
                    res.viol("[%s] rendering %s of `%s` panics" % (label, args, canon), ctx)
                    continue
                if d != d0:
                    ctx["dump_canonical"] = d0[:1500]
                    ctx["dump_variant"] = (d or "")[:1500]
                    res.viol("[%s] %s parses differently from `%s`" % (label, args, canon), ctx)
                    continue
                if (r.rc, r.out) != (r0.rc, r0.out):
                    res.viol("[%s] %s has the same parsed query as `%s` but status/rows differ (%s vs %s)" % (label, args, canon, r.rc, r0.rc), ctx)
                    continue
                res.cover("rendering_kinds", kind)
                if kind == "alias":
                    res.cover("aliases_exercised", label[6:])
                res.count("renderings_compared")
            if d0.startswith("Ok("):
                res.nt(canon)
            for t in toks:
                if t.kind == "kw":
                    res.cover("clauses", t.text)
            res.sample({"canonical": canon, "renderings": nvar, "rows": r0.out.count(b"\n") + r0.out.count(b"\0")}, cap=3)
    finally:
        runner.rm_scratch(sc)
    return res


def main(chk):
    quick = chk.tier == "quick"
    n = 160 if quick else 900
    jobs = [{"id": "j%d" % i, "seed": job_seed(chk.seed, "C11", i), "queries": 2 if quick else 4, "thorough": not quick} for i in range(n)]
    nd = len(directed_queries())
    for lo in range(0, nd, 8):
        jobs.append({"id": "dir%d" % lo, "seed": job_seed(chk.seed, "C11", "d%d" % lo), "directed": True, "lo": lo, "hi": lo + 8,
                     "queries": 0, "thorough": not quick})
    chk.run_jobs(jobs, budget_s=300 if quick else 3000)
    nalias = sum(len(g) - 1 for gs in (OP_GROUPS, COL_GROUPS, FN_GROUPS, AGG_GROUPS, NOARG_GROUPS, ROOTOPT_GROUPS, ARITH_GROUPS) for g in gs)
    return chk.finish(
        rule="generated valid queries covering every clause (select list with columns, function calls, arithmetic, argument-less functions; "
             "1-2 roots with options; where with every operator, and/or/not, brackets, between; group by; order by; limit; into) are rendered "
             "canonically as one argument and compared - parsed `Query` dump (debug configuration), exit status and stdout - with: every set "
             "of whitespace split points (exhaustive up to 8 gaps, sampled beyond), every case variant of each word token, every documented "
             "alias substituted one at a time (%d alias pairs in the tables) and random combinations, curly brackets, optional select / commas "
             "/ asc / () after argument-less functions. Non-trivial = canonical query parses; distinct by canonical text." % nalias,
        assumptions=["the `debug = true` configuration prints the parsed Query with {:#?}; two queries are the same iff the dumps are equal",
                     "values (literals, paths) are never case-changed; `regexp` root option and rand() are not generated"],
        require={"rendering_kinds": 5, "aliases_exercised": nalias, "clauses": 8},
        exhaustive={"alias_pairs_in_documentation_tables": nalias, "directed_queries": nd,
                    "split_sets": "all subsets of the free gaps when <= 8, else sampled"},
    )
