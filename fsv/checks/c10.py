"""C10 - any command line terminates with status 0, 1 or 2 - never a crash or a hang."""
import os
import random
import re

from .. import runner
from ..core import JobResult, job_seed
from . import c11

KEYWORDS = ["select", "from", "where", "and", "or", "not", "order", "by", "group", "asc", "desc", "limit", "into", "between",
            "like", "notlike", "eq", "ne", "gt", "lt", "gte", "lte", "ge", "le", "rx", "regexp", "notrx", "eeq", "ene"]
OPS = ["=", "==", "!=", "<>", "===", "!==", ">", ">=", "<", "<=", "=~", "~=", "!=~", "!~=", "~", "!", "<=>", "=<", "=>"]
ARITH = ["+", "-", "*", "/", "%", "plus", "minus", "mul", "div", "mod"]
BRACKETS = ["(", ")", "{", "}", "((", "))", "()", "{}"]
QUOTES = ["'", '"', "`", "'a", "a'", '"x y', "`z", "'a b'", '"q"', "`w`", "''", '""']
NUMS = ["0", "1", "2", "10", "-1", "007", "1.5", "1e3", "99999999999999999999", "4294967296", "1k", "2mb", "5x"]
GLOBS = ["*", "*.txt", "?", "a*", "[a]", "%", "_", "a?b", "**"]
DATES = ["2020-01-01", "2020-13-45", "today", "yesterday", "'2017-05-01 25'", "'2017-05-01 10:99'", "1970-01-01", "2999-12-31", "-1", "+1",
         "'-ab'", "'+x'", "'-zz'", "'+-1'", "'-9999999999'", "'+99999999999999999999'", "'apr 1'", "'last fri'", "'01/05'", "'32/13'", "'0000-00-00'"]
COLS = ["name", "size", "path", "ext", "modified", "is_dir", "mode", "uid", "*", "fsize", "sha1", "line_count", "width", "mime",
        "caps", "has_xattrs", "is_binary", "abspath", "user", "group"]
FUNCS = ["lower", "upper", "length", "substr", "replace", "concat", "format_size", "format_time", "power", "sqrt", "log", "abs",
         "hex", "year", "rand", "random", "count", "sum", "avg", "min", "max", "stddev", "var_samp", "contains", "has_xattr", "xattr",
         "has_cap", "curdate", "current_uid", "coalesce", "concat_ws", "to_base64", "from_base64", "least", "greatest", "japanese"]
PATHS = ["t", "t/a.txt", "t/sub", "./t", "t/", "nowhere", ".", "t/sp ace", "'t/sp ace'", "t,t", "t/sub,", "t/*", "'t/[s'", "t/s?b", "t/[st]*"]
ROOTOPTS = ["depth", "maxdepth", "mindepth", "sym", "symlinks", "arc", "archives", "git", "hg", "dock", "nogit", "bfs", "dfs", "regexp"]
FORMATS = ["list", "json", "csv", "html", "tabs", "lines", "xml", "LIST"]
PUNCT = [",", ",,", ";", ".", ":", "@", "#", "$", "&", "|", "\\", "^"]
ALL = (KEYWORDS * 2 + OPS + ARITH * 2 + BRACKETS * 2 + QUOTES + NUMS + GLOBS + DATES + COLS * 3 + FUNCS * 2 + PATHS * 2 + ROOTOPTS
       + FORMATS + PUNCT)

# directed malformed classes: (class, query, expected status)
DIRECTED = [
    ("unbalanced-bracket", "name from t where (size > 1", 2), ("unbalanced-bracket", "name from t where size > 1)", 2),
    ("unbalanced-bracket", "name from t where {size > 1", 2), ("unbalanced-bracket", "lower(name from t", 2),
    ("unbalanced-bracket", "name from t where ((size > 1) and name = 'a'", 2),
    ("dangling-operator", "name from t where size >", 2), ("dangling-operator", "name from t where size > 1 and", 2),
    ("dangling-operator", "name from t where = 5", 2), ("dangling-operator", "name from t where size between 1 and", 2),
    ("dangling-operator", "name from t where size between 1", 2), ("dangling-operator", "name from t where not", 2),
    ("dangling-operator", "name from t where name like", 2), ("dangling-operator", "name from t where size > 1 or", 2),
    ("unknown-operator", "name from t where name ~ x", 2), ("unknown-operator", "name from t where size <=> 5", 2),
    ("unknown-operator", "name from t where size ! 5", 2), ("unknown-operator", "name from t where size =< 5", 2),
    ("unknown-operator", "name from t where size !! 5", 2),
    ("order-by-position", "name from t order by 0", 2), ("order-by-position", "name from t order by 2", 2),
    ("order-by-position", "name, size from t order by 3 desc", 2), ("order-by-position", "name from t order by desc", 2),
    ("order-by-position", "name from t order by 99999999999999999999", 2),
    ("limit", "name from t limit x", 2), ("limit", "name from t limit", 2), ("limit", "name from t limit -1", 2),
    ("limit", "name from t limit 1.5", 2), ("limit", "name from t limit 99999999999", 2),
    ("format", "name from t into xml", 2), ("format", "name from t into", 2), ("format", "name from t into 5", 2),
    ("no-column", "from t", 2), ("no-column", "where size > 1", 2), ("no-column", ",", 2), ("no-column", "select", 2),
    ("no-column", "select from t", 2),
    ("bad-regex", "name from t where name =~ '('", 2), ("bad-regex", "name from t where name !=~ '[a'", 2),
    ("bad-regex", "name from t where name rx '*'", 2),
    ("bad-date", "name from t where modified > '2017-05-01 25'", 2), ("bad-date", "name from t where modified = '2017-13-01'", 2),
    ("bad-date", "name from t where modified < '2017-02-30'", 2), ("bad-date", "name from t where modified = garbage", 2),
    ("bad-date", "name from t where modified = '2017-05-01 10:61'", 2), ("bad-date", "name from t where modified >= +x", 2),
    ("bad-date", "name from t where modified = '-ab'", 2), ("bad-date", "name from t where modified > '+x'", 2),
    ("bad-date", "name from t where modified = '-'", 2), ("bad-date", "name from t where modified < '+1.5'", 2),
    ("bad-date", "name from t where modified = '--1'", 2), ("bad-date", "name from t where modified = 'ÀÉÎÀÉ'", 2),
    ("bad-date", "name from t where modified > 'étéété'", 2), ("bad-date", "name from t where modified < '日本語日本'", 2),
    # digits of other scripts and signed numbers far beyond any range: text that is no date
    ("bad-date", "name from t where modified = '٢٠٢٣-١٢-١١'", 2), ("bad-date", "name from t where modified > '२०२३-12-11 10:30'", 2),
    ("bad-date", "year('٢٠٢٣-١٢-١١') from t", None), ("bad-date", "name from t where modified = '-٣'", 2),
    ("bad-date", "name from t where modified < '-99999999999999999999'", 2), ("bad-date", "name from t where modified >= '+18446744073709551616'", 2),
    ("bad-date", "day('-340282366920938463463374607431768211456') from t", None), ("bad-date", "name from t where modified = '+９'", 2),
    ("bad-boolean", "name from t where is_dir = maybe", 2), ("bad-boolean", "name from t where is_file != 2", 2),
    ("bad-boolean", "name from t where user_read = 'si'", 2),
    ("bad-function-argument", "rand(x) from t", 2), ("bad-function-argument", "rand(1, y) from t", 2),
    ("bad-function-argument", "format_size(size, '%.2 q') from t", 2), ("bad-function-argument", "format_size(size, '%.99999999999k') from t", 2),
    ("bad-root", "name from 't/[s' regexp", 2), ("bad-root", "name from 't/(x[' regexp", 2), ("bad-root", "name from 't/*[' rx", 2),
    # a pattern root below a place that cannot be listed (missing, a plain file): reported and counted like any missing root
    ("unlistable-pattern-root", "name from nosuch/a* rx", 1), ("unlistable-pattern-root", "name from t/a.txt/b? regexp", 1),
    ("unlistable-pattern-root", "name from 't/nosuch/[ab]x', t rx", 1), ("unlistable-pattern-root", "name from /nosuch/deeper/.* regexp", 1),
    ("out-of-range-argument", "substr(name, -100) from t", 0),
    ("out-of-range-argument", "substr('abc', -4, 2) from t", 0), ("out-of-range-argument", "substr(name, 100, 5) from t", 0),
    ("cli", "-c", None), ("cli", "--config", None), ("cli", "-c nowhere.toml", None), ("cli", "--nocolor", None),
    ("cli", "-v", None), ("cli", "--help", None), ("cli", "-i", None),
]


def gen_soup(rng):
    n = rng.choice([1, 1, 2, 3, 4, 5, 6, 8, 10, 12, 16])
    toks = [rng.choice(ALL) for _ in range(n)]
    if rng.random() < 0.5:
        # bias towards query-shaped soups
        toks = [rng.choice(COLS + FUNCS)] + toks
        if rng.random() < 0.6:
            i = rng.randrange(len(toks) + 1)
            toks[i:i] = ["from", rng.choice(PATHS)]
    return sanitise(toks)


def gen_structured(rng):
    """Clause skeleton in the right order with 0-3 random tokens at each clause's own position, so that every parse_*
    function sees garbage where it expects its operands."""
    structural = ["(", ")", "{", "}", ",", "'", "and", "or", "not", "desc", "asc", "by", "=", "-", "*", "+", "/", "between", "1", "0"]

    def junk(lo=0, hi=3):
        return [rng.choice(structural) if rng.random() < 0.45 else rng.choice(ALL) for _ in range(rng.randint(lo, hi))]
    toks = [rng.choice(COLS + FUNCS)] + junk(0, 2)
    toks += ["from", rng.choice(PATHS)] + junk(0, 1)
    if rng.random() < 0.4:
        toks += ["where"] + (junk(0, 4) if rng.random() < 0.5 else ["size", ">", "1"] + junk(0, 2))
    if rng.random() < 0.5:
        toks += ["group", "by"] + junk(0, 3)
    if rng.random() < 0.5:
        toks += ["order", "by"] + junk(0, 3)
    if rng.random() < 0.4:
        toks += ["limit"] + junk(0, 2)
    if rng.random() < 0.4:
        toks += ["into"] + junk(0, 2)
    return sanitise(toks)


def gen_combo(rng):
    """A well-formed query combining clauses that are rarely used together (aggregates x GROUP BY x ORDER BY on keys that
    may or may not be selected x LIMIT x every format x root options)."""
    aggs = ["count(*)", "sum(size)", "min(size)", "max(size)", "avg(size)", "stddev(size)", "var_samp(size)", "max(length(name))"]
    plain = ["name", "size", "ext", "path", "modified", "is_dir", "mode", "upper(name)", "size + 1", "length(name)", "uid",
             # values that are not numbers (0 / 0, x % 0, roots and logarithms of negative numbers), infinite, or empty
             "size / size", "size % 0", "sqrt(0 - size)", "ln(0 - size)", "1 / (size - size)", "-1 / uid", "line_count / 0", "power(size, 1000)"]
    keys = ["ext", "dir", "is_dir", "uid", "length(name)", "mode"]
    kind = rng.choice(["grouped", "grouped", "aggregate", "plain"])
    toks = []
    if kind == "grouped":
        gk = rng.sample(keys, rng.choice([1, 1, 2]))
        sel = rng.sample(aggs, rng.randint(1, 3))
        if rng.random() < 0.6:
            sel = gk[:rng.randint(0, len(gk))] + sel
        rng.shuffle(sel)
        toks = [", ".join(sel), "from", rng.choice(["t", "t, t2", "t depth 2", "t dfs", "t archives"])]
        if rng.random() < 0.4:
            toks += ["where", rng.choice(["size > 0", "is_file", "name like '%t%'", "not is_dir"])]
        toks += ["group by", ", ".join(gk)]
        if rng.random() < 0.7:
            ok = rng.sample(keys + aggs + ["1", "2", "name", "size"], rng.randint(1, 3))
            toks += ["order by", ", ".join(k + rng.choice(["", " desc", " asc"]) for k in ok)]
    elif kind == "aggregate":
        toks = [", ".join(rng.sample(aggs, rng.randint(1, 4))), "from", rng.choice(["t", "t2", "t, t2", "nowhere"])]
        if rng.random() < 0.5:
            toks += ["where", rng.choice(["size > 100000", "is_file", "ext = 'zzz'"])]
        if rng.random() < 0.4:
            toks += ["order by", rng.choice(keys + aggs + ["1"])]
    else:
        sel = rng.sample(plain, rng.randint(1, 4))
        toks = [", ".join(sel), "from", rng.choice(["t", "t sym", "t arc", "t gitignore", "t mindepth 2", "t, t2 dfs"])]
        if rng.random() < 0.5:
            toks += ["where", rng.choice(["size > 0 or is_dir", "name =~ 't'", "modified > 2000-01-01", "size between 1 and 50", "uid = 0"])]
        if rng.random() < 0.6:
            ok = rng.sample(plain + ["1", str(len(sel))], rng.randint(1, 3))
            toks += ["order by", ", ".join(k + rng.choice(["", " desc"]) for k in ok)]
    if rng.random() < 0.5:
        toks += ["limit", str(rng.choice([0, 1, 2, 3, 100]))]
    if rng.random() < 0.7:
        toks += ["into", rng.choice(FORMATS[:6])]
    return toks


def sanitise(toks):
    """Keeps the search inside the scratch tree: no absolute / parent / home paths may follow `from` or a comma."""
    out = []
    for t in toks:
        prev = out[-1].lower() if out else ""
        if (t.startswith("/") or t.startswith("~") or ".." in t or t.startswith("\\")) and (prev in ("from",) or prev.endswith(",")):
            continue
        if t.startswith("~") or t.startswith("../") or t == "..":
            continue
        out.append(t)
    return out or ["name"]


def mutate(rng, words):
    w = list(words)
    k = rng.choice(["delete", "duplicate", "transpose", "truncate", "insert", "glue"])
    if k == "delete" and len(w) > 1:
        del w[rng.randrange(len(w))]
    elif k == "duplicate":
        i = rng.randrange(len(w))
        w.insert(i, w[i])
    elif k == "transpose" and len(w) > 1:
        i = rng.randrange(len(w) - 1)
        w[i], w[i + 1] = w[i + 1], w[i]
    elif k == "truncate":
        w = w[:rng.randrange(1, len(w) + 1)]
        if rng.random() < 0.5 and w:
            w[-1] = w[-1][:max(1, len(w[-1]) // 2)]
    elif k == "insert":
        w.insert(rng.randrange(len(w) + 1), rng.choice(ALL))
    else:
        if len(w) > 1:
            i = rng.randrange(len(w) - 1)
            w[i:i + 2] = [w[i] + w[i + 1]]
    return sanitise(w)


PANIC_RE = re.compile(rb"panicked at ([^\n:]+):(\d+):(\d+):\n([^\n]*)")


def site_of(r):
    m = PANIC_RE.search(r.err)
    if m:
        msg = re.sub(rb"\d+", b"N", m.group(4))[:70].decode("utf-8", "replace")
        return "panic|%s|%s" % (m.group(1).decode(), msg)
    if r.verdict in ("busy", "blocked"):
        return r.verdict
    if r.sig:
        return "signal|%d" % r.sig
    return "status|%s" % r.rc


def judge(res, args, r, expect, cls, ctx):
    if r.verdict == "watchdog" or r.verdict == "harness-error":
        res.inc("watchdog: %s %s" % (r.verdict, args))
        return False
    bad = None
    if r.verdict == "busy":
        bad = "spins until the CPU limit (no termination)"
    elif r.verdict == "blocked":
        bad = "blocks forever"
    elif r.panicked:
        bad = "panics (%s)" % site_of(r)
    elif r.sig:
        bad = "dies by signal %d" % r.sig
    elif r.rc not in (0, 1, 2):
        bad = "exits with status %s" % r.rc
    elif expect is not None and r.rc != expect:
        bad = "exits with status %s, expected %d for class %s" % (r.rc, expect, cls)
    elif expect == 2 and not r.err.strip():
        bad = "status 2 without a diagnostic"
    elif r.rc == 2 and r.err.startswith(b"query: ") and r.out:
        bad = "parse-time rejection after printing %d bytes of results" % len(r.out)
    if bad:
        res.viol("%s %s" % (args, bad), ctx, sig=None)
        return False
    return True


def run_job(job):
    res = JobResult()
    rng = random.Random(job["seed"])
    sc = runner.new_scratch("c10")
    try:
        w = runner.work_dir(sc)
        home = runner.make_home(sc)
        c11.build_tree(w)
        os.makedirs(os.path.join(w, "t/sp ace"))
        open(os.path.join(w, "t/sp ace/f"), "w").close()

        def go(args, expect=None, cls="soup"):
            r = runner.run(args, cwd=w, home=home)
            res.ev()
            ctx = {"args": args, "class": cls, "result": r.brief()}
            ok = judge(res, args, r, expect, cls, ctx)
            if ok:
                res.cover("classes", cls)
                res.cover("statuses", "%s %s" % (cls.split("-")[0], r.rc))
                res.nt("%s|%s" % (cls, " ".join(args)))
            return ok

        if job["kind"] == "directed":
            for cls, q, expect in DIRECTED[job["lo"]:job["hi"]]:
                go([q] if cls != "cli" else q.split(" "), expect, cls)
                if cls != "cli":
                    go(q.split(" "), expect, cls + "/split")
            res.sample({"directed": [d[1] for d in DIRECTED[job["lo"]:job["hi"]]][:4]}, cap=1)
        else:
            for i in range(job["n"]):
                c = rng.random()
                if c < 0.06:
                    # option words in front of (or instead of) the query: every combination must end with status 0/1/2
                    optw = ["--nocolor", "--no-color", "-c", "--config", "/c", "-C", "--CONFIG", "/nocolor", "-i", "--nocolor", "-c", "-cfg", "--i"]
                    vals = ["cfg.toml", "nope.toml", "t", "", "CFG.TOML", "t/sp ace/f"]
                    args = []
                    for _ in range(rng.randint(1, 4)):
                        o = rng.choice(optw)
                        args.append(o)
                        if o.lower().lstrip("-/").startswith("c") and rng.random() < 0.6:
                            args.append(rng.choice(vals))
                    tail = rng.choice([None, None, "name from t", "name from t limit 1 into json", "from", "(", "-c", "--nocolor"])
                    if tail:
                        args += [tail] if rng.random() < 0.5 else tail.split(" ")
                    if not os.path.exists(os.path.join(w, "cfg.toml")):
                        with open(os.path.join(w, "cfg.toml"), "w") as f:
                            f.write("no_color = true\n")
                    if go(args, None, "option-words") and i % 50 == 0:
                        res.sample({"class": "option-words", "args": args}, cap=4)
                    continue
                if c < 0.3:
                    toks = gen_soup(rng)
                    cls = "soup"
                elif c < 0.45:
                    toks = gen_structured(rng)
                    cls = "structured-soup"
                elif c < 0.6:
                    toks = gen_combo(rng)
                    cls = "clause-combination"
                elif c < 0.9:
                    toks_, _simple = c11.gen_query(rng)
                    toks = c11.render(toks_)
                    for _ in range(rng.choice([1, 1, 2, 3])):
                        toks = mutate(rng, toks)
                    cls = "mutation"
                else:
                    f = rng.choice(FUNCS)
                    a = rng.choice(["", "name", "'x'", "'abc'", "-5", "2.5", "99999999999999999999", "size", "''", "*", "name, name, name", "modified", "ext",
                                    "'ÀÉÎÀÉ'", "'日本語日本'", "'next friday'", "'ß'"])
                    b = rng.choice(["", ", x", ", -1", ", 1.5", ", 'y', 'z'", ", 99999999999999999999", ", name", ", -100", ", 100", ", 0", ", -4, 2",
                                    ", 2, 1000000", ", -2147483648", ", 2147483647", ", 1, 0", ", '%.99999999999k'", ", '%.999'", ", '%.-1'", ", -0", ", 1e3"])
                    toks = ["%s(%s%s)" % (f, a, b if a else ""), "from", "t"]
                    if rng.random() < 0.3:
                        toks = ["name", "from", "t", "where", "%s(%s%s)" % (f, a, b if a else ""), rng.choice(["=", ">", "like"]), rng.choice(["1", "x", "true"])]
                    cls = "function-args"
                if cls == "clause-combination":
                    args = [" ".join(toks)]
                    if go(args, None, cls) and i % 50 == 0:
                        res.sample({"class": cls, "args": args}, cap=4)
                    continue
                args = [" ".join(toks)] if rng.random() < 0.6 else toks
                if go(args, None, cls) and i % 50 == 0:
                    res.sample({"class": cls, "args": args}, cap=4)
    finally:
        runner.rm_scratch(sc)
    return res


def main(chk):
    quick = chk.tier == "quick"
    jobs = []
    for lo in range(0, len(DIRECTED), 8):
        jobs.append({"id": "dir%d" % lo, "kind": "directed", "seed": 0, "lo": lo, "hi": lo + 8})
    n = 320 if quick else 3000
    for i in range(n):
        jobs.append({"id": "s%d" % i, "kind": "soup", "seed": job_seed(chk.seed, "C10", i), "n": 60 if quick else 100})
    if not quick:
        soups = [j for j in jobs if j["kind"] == "soup"]
        jobs += chk.shard(soups[:120] + [j for j in jobs if j["kind"] == "directed"], "asan", 140)
        jobs += chk.shard(soups[120:260], "arith", 140)
        jobs += chk.shard([dict(j, n=12) for j in soups[260:266]], "valgrind", 6)
    chk.run_jobs(jobs, budget_s=420 if quick else 3000)
    return chk.finish(
        rule="argument vectors: token soups of length 1..16 over keywords, operators (also unknown ones), arithmetic symbols and words, both "
             "bracket kinds, the three quote characters (also unbalanced), numbers, globs, dates, column / function names, root options and "
             "paths inside the scratch tree, as one argument or several; 1-3 token-level mutations (delete, duplicate, transpose, truncate, "
             "insert, glue) of valid generated queries; every scalar/aggregate function with missing, empty, textual, negative, fractional "
             "and huge arguments; option words (--nocolor, -c/--config with present, missing, unreadable or absent value, -i) in front of or instead of a query; %d directed malformed queries with an exact expected status (one-argument and fully split). Each run is "
             "judged: status in {0,1,2}, no `panicked at`, no signal, no CPU-limit kill, status 2 only with a diagnostic, no stdout on a "
             "`query:` rejection. Non-trivial: every judged run; distinct by (class, argv)." % len(DIRECTED),
        assumptions=["RLIMIT_CPU = 5 s decides 'loops forever' (normal runs use milliseconds); a wall-clock watchdog firing is inconclusive",
                     "soups are filtered so that no absolute, parent or home path follows FROM (the search must stay in the scratch tree)"],
        require={"classes": 20},
        exhaustive={"directed_malformed_classes": sorted(set(d[0] for d in DIRECTED))},
    )
