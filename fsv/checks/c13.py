"""C13 - date literals denote intervals; comparisons partition time consistently."""
import datetime
import os
import random
import re
import zipfile
import zoneinfo

from .. import model, runner
from ..core import JobResult, job_seed

TZS = ["UTC", "Europe/Berlin", "America/New_York", "Asia/Kolkata", "America/Havana"]
OPS = ["=", "!=", "<", "<=", ">", ">=", "===", "!=="]
ALIASES = {"=": ["=", "==", "eq"], "!=": ["!=", "<>", "ne"], "<": ["<", "lt"], "<=": ["<=", "lte", "le"],
           ">": [">", "gt"], ">=": [">=", "gte", "ge"], "===": ["===", "eeq"], "!==": ["!==", "ene"]}
ANCHORS = [
    (2017, 5, 1, 15, 10, 30), (2020, 2, 29, 0, 0, 0), (2021, 12, 31, 23, 59, 59), (2022, 1, 1, 0, 0, 0),
    (2021, 3, 28, 2, 30, 0), (2021, 10, 31, 2, 30, 0), (2021, 3, 14, 2, 30, 0), (2021, 11, 7, 1, 30, 0),
    (2019, 2, 28, 23, 59, 59), (2024, 3, 1, 0, 0, 0), (2023, 6, 30, 12, 0, 0), (1999, 12, 31, 23, 59, 59),
    (2038, 1, 19, 3, 14, 7),
    # leap days, also of years that are leap years by the 400-year rule only, and the days around a missing 29 February
    (2000, 2, 29, 12, 0, 0), (2000, 2, 29, 23, 59, 59), (2400, 2, 29, 6, 30, 0), (1996, 2, 29, 0, 0, 1), (2024, 2, 29, 18, 45, 10),
    (2100, 2, 28, 23, 59, 59), (2100, 3, 1, 0, 0, 0), (1904, 2, 29, 9, 9, 9),
    # America/Havana switches at local midnight: 00:00 does not exist on 2021-03-14 and occurs twice on 2021-11-07
    (2021, 3, 14, 12, 0, 0), (2021, 11, 7, 12, 0, 0), (2021, 11, 7, 0, 30, 0),
]


FAKE_NOWS = [(2021, 3, 28, 0, 30, 0), (2021, 3, 28, 23, 59, 40), (2021, 10, 31, 0, 0, 20), (2020, 2, 29, 12, 0, 0), (2020, 3, 1, 0, 0, 10),
             (2021, 12, 31, 23, 59, 30), (2022, 1, 1, 0, 0, 5), (2021, 11, 7, 0, 10, 0), (2021, 3, 14, 1, 30, 0), (2023, 7, 31, 23, 0, 0),
             (2024, 1, 31, 6, 0, 0), (1999, 12, 31, 23, 59, 0)]


def to_ts(naive, tz):
    return int(naive.replace(tzinfo=zoneinfo.ZoneInfo(tz)).timestamp())


def render_literal(rng, t, prec):
    sep = rng.choice(["-", "-", "-", ":"])
    # one-digit months, days, hours ... may be written without the leading zero (`2023-1-05`, '2023-01-05 7:03')
    f = lambda: rng.choice(["%02d", "%02d", "%02d", "%d"])
    date = ("%04d%s" + f() + "%s" + f()) % (t.year, sep, t.month, sep, t.day)
    if prec == "day":
        s = date
    elif prec == "hour":
        s = date + (" " + f()) % t.hour
    elif prec == "minute":
        s = date + (" " + f() + ":" + f()) % (t.hour, t.minute)
    else:
        s = date + (" " + f() + ":" + f() + ":" + f()) % (t.hour, t.minute, t.second)
    return s


def run_job(job):
    res = JobResult()
    rng = random.Random(job["seed"])
    sc = runner.new_scratch("c13")
    try:
        w = runner.work_dir(sc)
        home = runner.make_home(sc)
        tz = job["tz"]
        for li in range(job["literals"]):
            relative = rng.random() < 0.25
            d = os.path.join(w, "d%d" % li)
            os.mkdir(d)
            fake = None
            if relative:
                now = datetime.datetime.now(zoneinfo.ZoneInfo(tz))
                if rng.random() < 0.75:
                    # controlled clock (LD_PRELOAD shim): instants next to local day edges, month/year ends, DST days
                    naive = rng.choice(FAKE_NOWS)
                    fake = to_ts(datetime.datetime(*naive), tz)
                    now = datetime.datetime.fromtimestamp(fake, zoneinfo.ZoneInfo(tz))
                off = rng.choice([0, -1, -2, -7, 1, 3])
                lit = {0: rng.choice(["today", "-0", "+0"]), -1: rng.choice(["yesterday", "-1"])}.get(off, "%+d" % off)
                iv = model.date_interval(lit, tz, now)
                quoted = True if lit.startswith("+") else rng.random() < 0.5
                prec = "relative"
            else:
                y, mo, dd, h, mi, s = rng.choice(ANCHORS)
                t = datetime.datetime(y, mo, dd, h, mi, s)
                if rng.random() < 0.5:
                    t = datetime.datetime(rng.choice([rng.randrange(1971, 2037), rng.randrange(1971, 2037), rng.randrange(1903, 1970), rng.randrange(2038, 2400)]),
                                          rng.randrange(1, 13), rng.randrange(1, 29),
                                          rng.randrange(24), rng.randrange(60), rng.randrange(60))
                prec = rng.choice(["day", "hour", "minute", "second"])
                lit = render_literal(rng, t, prec)
                iv = model.date_interval(lit, tz)
                quoted = True if (" " in lit or ":" in lit.split(" ")[0]) else rng.random() < 0.6
                if t.year < 1971:
                    quoted = True       # unquoted, the lexer takes a year before 1970 for arithmetic (its "optimistic assumption")
                    res.count("literals_before_1970")
                elif t.year > 2037:
                    res.count("literals_after_2038")
            if iv is None:
                res.inc("model rejected literal " + lit)
                continue
            a, b = iv
            offsets = set()
            for edge in (a, b):
                for delta in (-1, 0, 1):
                    offsets.add(edge + datetime.timedelta(seconds=delta))
            for delta in (-86400, 86400, -3600, 3600, -31 * 86400, 366 * 86400):
                offsets.add(a + datetime.timedelta(seconds=delta))
            offsets.add(a + (b - a) / 2)
            files = {}
            for i, o in enumerate(sorted(offsets)):
                if o.year < 1902 or o.year > 2400:
                    continue
                ts = to_ts(o.replace(microsecond=0), tz)
                p = os.path.join(d, "f%02d" % i)
                with open(p, "w"):
                    pass
                ns = ts * 1_000_000_000 + rng.choice([0, 0, 1, 500_000_000, 999_999_999, rng.randrange(1_000_000_000)])
                os.utime(p, ns=(ns, ns))
                files["f%02d" % i] = model.local_naive(os.lstat(p).st_mtime_ns // 1_000_000_000, tz)
                if ns % 1_000_000_000:
                    res.count("mtimes_with_subsecond_part")
            # two directories whose only child has the same name, visited one after the other, with different times
            tw = sorted(files.items())
            if len(tw) >= 2:
                for k, (src, when) in enumerate((tw[0], tw[-1])):
                    os.mkdir(os.path.join(d, "tw%d" % k))
                    p = os.path.join(d, "tw%d" % k, "only")
                    open(p, "w").close()
                    ts = os.lstat(os.path.join(d, src)).st_mtime_ns
                    os.utime(p, ns=(ts, ts))
                    files["tw%d/only" % k] = when
            littext = model.quote_lit(lit) if quoted else lit
            # the same grid as stored times of zip members (local wall-clock time, two-second resolution, from 1980 on):
            # a member is an entry with a time like any other
            zfiles = {}
            if rng.random() < 0.3:
                zd = os.path.join(w, "z%d" % li)
                os.mkdir(zd)
                with zipfile.ZipFile(os.path.join(zd, "pack.zip"), "w") as z:
                    for i, o in enumerate(sorted(offsets)):
                        if 1981 <= o.year <= 2037 and o.second % 2 == 0:
                            o = o.replace(microsecond=0)
                            zi = zipfile.ZipInfo("m%02d" % i, (o.year, o.month, o.day, o.hour, o.minute, o.second))
                            zi.external_attr = (0o100644) << 16
                            zi.create_system = 3
                            z.writestr(zi, b"")
                            zfiles["[pack.zip] m%02d" % i] = o
                os.utime(os.path.join(zd, "pack.zip"), (86400 * 365 * 5, 86400 * 365 * 5))
            per_op = {}
            for op in OPS:
                spelled = rng.choice(ALIASES[op])
                q = "path, modified from d%d where modified %s %s into list" % (li, spelled, littext)
                day0 = datetime.datetime.now(zoneinfo.ZoneInfo(tz)).date()
                r = runner.run([q], cwd=w, home=home, tz=tz, fake_epoch=fake)
                res.ev()
                day1 = datetime.datetime.now(zoneinfo.ZoneInfo(tz)).date()
                if fake is not None:
                    res.count("runs_under_controlled_clock")
                ctx = {"query": q, "tz": tz, "files": {k: model.fmt_dt(v) for k, v in files.items()},
                       "interval": [model.fmt_dt(a), model.fmt_dt(b)], "result": r.brief()}
                if relative and day0 != day1:
                    res.inc("local date changed during a relative-date run")
                    continue
                if r.verdict != "ok":
                    if r.verdict == "busy":
                        res.viol("busy loop on `%s`" % q, ctx)
                    else:
                        res.inc("watchdog")
                    continue
                if r.rc != 0 or r.err or r.panicked:
                    res.viol("`modified %s %s` (TZ=%s): status %s stderr %r" % (spelled, littext, tz, r.rc, r.err[:150]), ctx)
                    continue
                try:
                    rows = [(os.path.relpath(p_, "d%d" % li), m_) for p_, m_ in r.rows(2)]
                except ValueError as e:
                    res.viol("undecodable output: %s" % e, ctx)
                    continue
                rows = [(n, m) for n, m in rows if n in files]          # the two `tw` directories themselves carry no judged time
                got = set(n for n, _m in rows)
                exp = set(n for n, t_ in files.items() if model.date_cmp(op, t_, a, b))
                bad = False
                if got != exp:
                    ctx["wrongly_returned"] = sorted(got - exp)
                    ctx["wrongly_omitted"] = sorted(exp - got)
                    res.viol("`modified %s %s` (TZ=%s, interval %s..%s): +%s -%s" % (
                        spelled, littext, tz, model.fmt_dt(a), model.fmt_dt(b),
                        [model.fmt_dt(files[x]) for x in sorted(got - exp)][:3],
                        [model.fmt_dt(files[x]) for x in sorted(exp - got)][:3]), ctx)
                    bad = True
                for n, m in rows:
                    if n in files and m != model.fmt_dt(files[n]):
                        res.viol("`modified` printed %r for mtime %s (TZ=%s)" % (m, model.fmt_dt(files[n]), tz), ctx)
                        bad = True
                        break
                if not bad and zfiles and rng.random() < 0.4:
                    qz = "name, modified from z%d archives where modified %s %s into list" % (li, spelled, littext)
                    rz = runner.run([qz], cwd=w, home=home, tz=tz, fake_epoch=fake)
                    res.ev()
                    if rz.verdict == "ok":
                        ctxz = {"query": qz, "tz": tz, "members": {k: model.fmt_dt(v) for k, v in zfiles.items()}, "result": rz.brief()}
                        try:
                            zrows = [(n, m) for n, m in rz.rows(2) if n.startswith("[")] if rz.rc == 0 and not rz.err else None
                        except ValueError:
                            zrows = None
                        zexp = set(n for n, t_ in zfiles.items() if model.date_cmp(op, t_, a, b))
                        if zrows is None or set(n for n, _m in zrows) != zexp:
                            res.viol("zip members, `modified %s %s` (TZ=%s): returned %s, expected %s (status %s, stderr %r)" % (
                                spelled, littext, tz, sorted(n for n, _m in zrows or [])[:4], sorted(zexp)[:4], rz.rc, rz.err[:100]), ctxz)
                            bad = True
                        elif any(m != model.fmt_dt(zfiles[n]) for n, m in zrows):
                            res.viol("zip members: `modified` printed %s for stored times %s (TZ=%s)" % (
                                [m for n, m in zrows][:3], [model.fmt_dt(zfiles[n]) for n, m in zrows][:3], tz), ctxz)
                            bad = True
                        else:
                            res.count("zip_member_times_compared", len(zfiles))
                if not bad:
                    per_op[op] = got
                    res.cover("op_prec", "%s %s" % (op, prec))
                    res.cover("tz", tz)
                    res.cover("spelling", spelled)
                    res.cover("quoted", str(quoted))
                    if 0 < len(exp) < len(files):
                        if not relative and re.search(r"(^|[-: ])\d([-: ]|$)", lit):
                            res.count("literals_with_unpadded_field")
                        res.nt("%s|%s|%s|%s" % (tz, lit if not relative else lit + "@" + str(day0), op, quoted))
            # x between L1 and L2  ==  x >= L1 and x <= L2  (start of the first interval .. end of the second)
            if not relative:
                t2 = a + datetime.timedelta(seconds=rng.choice([0, 1, 59, 3600, 86400, 40 * 86400]))
                lit2 = render_literal(rng, t2, rng.choice(["day", "hour", "minute", "second"]))
                iv2 = model.date_interval(lit2, tz)
                if iv2 is not None:
                    qb = "path from d%d where modified between %s and %s into list" % (li, model.quote_lit(lit), model.quote_lit(lit2))
                    rb = runner.run([qb], cwd=w, home=home, tz=tz)
                    res.ev()
                    if rb.verdict == "ok" and rb.rc == 0 and not rb.err:
                        gotb = set(os.path.relpath(x, "d%d" % li) for x in rb.rows()) & set(files)
                        expb = set(n for n, t_ in files.items() if a <= t_ <= iv2[1])
                        if gotb != expb:
                            res.viol("`modified between '%s' and '%s'` (TZ=%s): +%s -%s" % (lit, lit2, tz,
                                     [model.fmt_dt(files[x]) for x in sorted(gotb - expb)][:3], [model.fmt_dt(files[x]) for x in sorted(expb - gotb)][:3]),
                                     {"query": qb, "tz": tz})
                        else:
                            res.count("date_between_checked")
                    elif rb.verdict == "ok":
                        res.viol("`%s`: status %s stderr %r" % (qb, rb.rc, rb.err[:120]), {"query": qb, "result": rb.brief()})
            if all(o in per_op for o in ("<", "=", ">")):
                for n in files:
                    k = sum(1 for o in ("<", "=", ">") if n in per_op[o])
                    if k != 1:
                        res.viol("mtime %s satisfies %d of <, =, > for literal %s" % (model.fmt_dt(files[n]), k, lit),
                                 {"literal": lit, "tz": tz})
                        break
                else:
                    res.count("trichotomy_checked", len(files))
            res.sample({"tz": tz, "literal": littext, "interval": [model.fmt_dt(a), model.fmt_dt(b)],
                        "files": len(files), "eq_rows": sorted(per_op.get("=", []))}, cap=2)
    finally:
        runner.rm_scratch(sc)
    return res


def main(chk):
    quick = chk.tier == "quick"
    n = 640 if quick else 2000
    jobs = [{"id": "j%d" % i, "seed": job_seed(chk.seed, "C13", i), "tz": TZS[i % len(TZS)],
             "literals": 6 if quick else 14} for i in range(n)]
    chk.run_jobs(jobs, budget_s=300 if quick else 3000)
    return chk.finish(
        rule="per literal (day/hour/minute/second precision, '-' or ':' date separators, quoted/unquoted, fixed anchors at leap days, "
             "year ends, DST days and random dates; plus today/yesterday/-N/'+N') one directory with mtimes at a-1,a,a+1,b-1,b,b+1, "
             "+-1h, +-1d, -31d, +366d and the midpoint; all 8 operators in every spelling under TZ in {UTC, Europe/Berlin, America/New_York, "
             "Asia/Kolkata, America/Havana (DST switch at local midnight)}; `modified` is printed and compared too; trichotomy of <,=,> per entry. Non-trivial = proper non-empty "
             "subset; distinct by (tz, literal, operator, quoting).",
        assumptions=["interval semantics from the property statement (closed interval of local seconds; </> strictly outside, <=/>= inclusive of the far edge)",
                     "local time is computed with Python zoneinfo from the same tzdata the binary uses",
                     "relative literals are judged only if the local date did not change during the run; 75% of them run under a "
                     "controlled clock (LD_PRELOAD shim pinning CLOCK_REALTIME, fsv/native/fakeclock.c) at instants next to day edges, "
                     "month/year ends and DST switches"],
        require={"op_prec": 36, "tz": 5, "runs_under_controlled_clock": 100, "mtimes_with_subsecond_part": 100},
    )
