"""C18 - following symlinks finds what is behind them, once, and always terminates."""
import collections
import os
import random

from .. import runner, tree
from ..core import JobResult, job_seed
from .c01 import q as quote_path


def decorate(rng, w, root_name, nlinks):
    """Adds symlinks of every kind to the tree under w/root_name. Returns the list of (link path, target text)."""
    root = os.path.join(w, root_name)
    dirs = [root] + [os.path.join(dp, d) for dp, dn, _f in os.walk(root) for d in dn]
    files = [os.path.join(dp, f) for dp, _d, fn in os.walk(root) for f in fn]
    out_dirs = [os.path.join(w, "out"), os.path.join(w, "out", "deep")]
    links = []
    for i in range(nlinks):
        where = rng.choice(dirs)
        lp = os.path.join(where, "ln%d" % i)
        kind = rng.choice(["dir-in", "dir-in", "dir-out", "above", "ancestor", "file", "dangling", "self", "mutual", "chain", "root", "dot"])
        if kind == "dir-in":
            tgt = rng.choice(dirs)
        elif kind == "dir-out":
            tgt = rng.choice(out_dirs)
        elif kind == "above":
            tgt = w
        elif kind == "ancestor":
            tgt = os.path.dirname(where) if where != root else root
        elif kind == "file":
            tgt = rng.choice(files) if files else os.path.join(w, "out", "of")
        elif kind == "dangling":
            tgt = os.path.join(where, "no-such-%d" % i)
        elif kind == "self":
            tgt = lp
        elif kind == "root":
            tgt = root
        elif kind == "dot":
            tgt = where
        elif kind == "mutual":
            other = os.path.join(rng.choice(dirs), "mu%d" % i)
            try:
                os.symlink(os.path.relpath(lp, os.path.dirname(other)), other)
                links.append((other, "mutual"))
            except OSError:
                pass
            tgt = other
        else:  # chain: link -> link -> dir
            mid = os.path.join(rng.choice(dirs), "ch%d" % i)
            end = rng.choice(dirs + out_dirs)
            try:
                os.symlink(end if rng.random() < 0.5 else os.path.relpath(end, os.path.dirname(mid)), mid)
                links.append((mid, "chain-mid"))
            except OSError:
                pass
            tgt = mid
        text = tgt if rng.random() < 0.4 else os.path.relpath(tgt, where)
        try:
            os.symlink(text, lp)
            links.append((lp, kind))
        except OSError:
            pass
    return links


def reachable(root_abs):
    """Real directories reachable from the root through directories and links to directories, and the expected
    identities {(real directory, name)}."""
    start = os.path.realpath(root_abs)
    seen = {start}
    queue = collections.deque([start])
    ids = set()
    while queue:
        d = queue.popleft()
        for n in os.listdir(d):
            ids.add((d, n))
            p = os.path.join(d, n)
            if os.path.isdir(p):          # follows links; false for dangling, self and mutual links
                rp = os.path.realpath(p)
                if rp not in seen:
                    seen.add(rp)
                    queue.append(rp)
    return seen, ids


def job_nonutf8(res, rng, w, home):
    """Names that are not valid UTF-8: sibling directories that look alike when printed are different real directories, each
    traversed once, whether they are reached directly or through a link. Rows are printed lossily, so they are counted."""
    base = os.path.join(w, "nu").encode()
    os.mkdir(base)
    pa, pb = rng.choice([(b"d\xfe", b"d\xff"), (b"x\x80", b"x\x81"), (b"\xe9t\xe9", b"\xe8t\xe8")])
    entries = []
    for pd in (pa, pb):
        os.makedirs(os.path.join(base, pd, b"inner"))
        for leaf in (b"one", b"inner/two"):
            open(os.path.join(base, pd, leaf), "wb").close()
        entries += [pd, pd + b"/inner", pd + b"/one", pd + b"/inner/two"]
    os.mkdir(os.path.join(base, b"plain"))
    os.symlink(b"../" + pa, os.path.join(base, b"plain", b"ln"))       # a link to the first of the two
    entries += [b"plain", b"plain/ln"]
    # and a link that itself lives inside one of them, to a directory nothing else leads to
    os.makedirs(os.path.join(base, b"far", b"deep"))
    open(os.path.join(base, b"far", b"deep", b"leaf"), "wb").close()
    os.rename(os.path.join(base, b"far"), os.path.join(w.encode(), b"far-away"))
    os.symlink(os.path.join(w.encode(), b"far-away"), os.path.join(base, pb, b"out"))
    entries += [pb + b"/out", pb + b"/out/deep", pb + b"/out/deep/leaf"]
    for mode in ("", " dfs", " bfs"):
        query = "path from nu symlinks%s into list" % mode
        r = runner.run([query], cwd=w, home=home)
        res.ev()
        ctx = {"query": query, "entries": [repr(e) for e in entries], "result": r.brief()}
        if r.verdict != "ok" or r.rc != 0 or r.err or r.panicked:
            if r.verdict in ("ok", "busy", "blocked"):
                res.viol("`%s` on names that are not valid UTF-8: %s, status %s, stderr %r" % (query, r.verdict, r.rc, r.err[:160]), ctx)
            continue
        got = sorted(r.out.decode("utf-8", "replace").split("\0")[:-1]) if r.out else []
        # the first directory is listed under its own path or under the link, never twice; everything else exactly once
        lossy = lambda b: ("nu/" + b.decode("utf-8", "replace"))
        fixed = sorted(lossy(e) for e in entries if not e.startswith(pa + b"/"))
        via_own = sorted(fixed + [lossy(e) for e in entries if e.startswith(pa + b"/")])
        via_link = sorted(fixed + [lossy(b"plain/ln/" + e[len(pa) + 1:]) for e in entries if e.startswith(pa + b"/")])
        if got not in (via_own, via_link):
            res.viol("`%s`: %d rows; the %d entries behind two look-alike directories and a link are not each listed once (differs: %s)" % (
                query, len(got), len(via_own), sorted(set(got) ^ set(via_own))[:4]), ctx)
            continue
        res.cover("cases", "non-utf8-siblings")
        res.nt("nonutf8|%r|%s" % (pa, mode))


def run_job(job):
    res = JobResult()
    rng = random.Random(job["seed"])
    sc = runner.new_scratch("c18")
    try:
        w = runner.work_dir(sc)
        home = runner.make_home(sc)
        if job.get("kind") == "nonutf8":
            job_nonutf8(res, rng, w, home)
            return res
        root_name = rng.choice(["t", "r-1", "ŕ3"])
        root = os.path.join(w, root_name)
        os.mkdir(root)
        nodes = tree.gen_tree(rng, max_entries=rng.randint(3, 25), max_depth=5, kinds=("file", "dir"), odd=0.15, dir_bias=0.45)
        tree.materialise(root, nodes)
        os.makedirs(os.path.join(w, "out", "deep"))
        for p in ("out/of", "out/deep/od", "out/deep/x.txt"):
            open(os.path.join(w, p), "w").close()
        os.mkdir(os.path.join(w, "elsewhere"))     # a cwd that is neither the root nor its parent
        links = decorate(rng, w, root_name, rng.randint(1, 8))
        real_dirs, ids = reachable(root)
        _rd_out, ids_out = reachable(os.path.join(w, "out"))
        plain_snapshot = None
        for qi in range(job["queries"]):
            spelling = rng.choice(["rel", "abs", "dot", "from-elsewhere", "no-from"])
            if spelling == "rel":
                cwd, frm = w, root_name
            elif spelling == "abs":
                cwd, frm = rng.choice([w, os.path.join(w, "elsewhere")]), root
            elif spelling in ("dot", "no-from"):
                cwd, frm = root, "."
            else:
                cwd, frm = os.path.join(w, "elsewhere"), "../" + root_name
            mode = rng.choice(["", " bfs", " dfs"])
            follow = rng.random() < 0.8
            window = neutral = ""
            if rng.random() < 0.2:
                window = rng.choice([" maxdepth 2", " mindepth 2", " maxdepth 3", " mindepth 1 maxdepth 2"])
            elif rng.random() < 0.25:
                # a window that excludes nothing (every entry is at least one level below the root, none is 90 levels deep):
                # judged like no window at all
                neutral = rng.choice([" mindepth 1", " mindepth 1", " mindepth 0", " maxdepth 90", " mindepth 1 maxdepth 90", " maxdepth 0"])
            opt = rng.choice([" symlinks", " sym", " SYMLINKS"]) if follow else ""
            query = "path from %s%s%s%s into list" % (quote_path(frm), window or neutral, opt, mode)
            if spelling == "no-from":
                # FROM left out: the current directory is searched, the root options follow the columns directly
                query = "path%s%s%s into list" % (window or neutral, opt, mode)
            two = follow and not window and rng.random() < 0.2 and spelling != "no-from"
            if two:
                # a second root (the directory outside the tree that some links lead to), also followed: what is reachable from
                # either root is listed, still once per real directory
                frm2 = os.path.relpath(os.path.join(w, "out"), cwd) if spelling != "abs" else os.path.join(w, "out")
                parts = ["%s%s%s%s" % (quote_path(frm), neutral, opt, mode), "%s%s" % (quote_path(frm2), opt)]
                if rng.random() < 0.5:
                    parts.reverse()
                query = "path from %s into list" % ", ".join(parts)
            r = runner.run([query], cwd=cwd, home=home, trace=(qi % 2 == 0))
            res.ev()
            ctx = {"query": query, "cwd": os.path.relpath(cwd, w), "links": [(os.path.relpath(l, w), k, os.readlink(l)) for l, k in links],
                   "result": r.brief()}
            if r.verdict != "ok":
                if r.verdict in ("busy", "blocked"):
                    res.viol("`%s` does not terminate (%s) on a tree with links %s" % (query, r.verdict, [k for _l, k in links]), ctx)
                else:
                    res.inc("watchdog")
                continue
            if r.panicked or r.sig:
                res.viol("`%s` crashes: %s" % (query, r.err[:200].decode("utf-8", "replace")), ctx)
                continue
            rows = r.rows()
            if not follow:
                # without the option no row comes from behind a link
                want = sorted(os.path.join(dp, n) for dp, dn, fn in os.walk(root) for n in dn + fn)
                got = sorted(os.path.normpath(os.path.join(cwd, x)) for x in rows)
                if not window:
                    if got != want or r.rc != 0 or r.err:
                        ctx["extra"] = sorted(set(got) - set(want))[:5]
                        ctx["missing"] = sorted(set(want) - set(got))[:5]
                        res.viol("without `symlinks`: rows differ from the plain walk (status %s, +%d/-%d)" % (
                            r.rc, len(set(got) - set(want)), len(set(want) - set(got))), ctx)
                        continue
                    res.cover("cases", "no-follow" + ("-neutral-window" if neutral else ""))
                    res.nt("nofollow|%s|%s" % (sorted(k for _l, k in links), spelling))
                continue
            # safety clauses (always): every row names an existing entry, no identity twice, nothing unreachable
            seen_ids = collections.Counter()
            bad = False
            for x in rows:
                a = os.path.normpath(os.path.join(cwd, x))
                if not os.path.lexists(a):
                    res.viol("`%s`: row %r names no existing entry" % (query, x), ctx)
                    bad = True
                    break
                ident = (os.path.realpath(os.path.dirname(a)), os.path.basename(a))
                seen_ids[ident] += 1
                if ident not in ids and not (two and ident in ids_out):
                    res.viol("`%s`: row %r comes from a directory that is not reachable from the root" % (query, x), ctx)
                    bad = True
                    break
            if bad:
                continue
            dup = [i for i, c in seen_ids.items() if c > 1]
            if dup:
                ctx["duplicates"] = [os.path.join(os.path.relpath(d, w), n) for d, n in dup[:5]]
                res.viol("`%s`: %d entries listed twice - a real directory was traversed more than once (e.g. %s)" % (
                    query, len(dup), ctx["duplicates"][:2]), ctx)
                continue
            if r.rc != 0 or r.err:
                res.viol("`%s`: status %s, stderr %r on a fully readable tree (links: %s)" % (query, r.rc, r.err[:200], sorted(set(k for _l, k in links))), ctx)
                continue
            if not window:
                missing = (ids | ids_out if two else ids) - set(seen_ids)
                if missing:
                    ctx["missing"] = [os.path.join(os.path.relpath(d, w), n) for d, n in sorted(missing)[:6]]
                    res.viol("`%s`: %d entries behind links are not listed (e.g. %s)" % (query, len(missing), ctx["missing"][:3]), ctx)
                    continue
            # O3: each real directory entered at most once
            canon = collections.Counter(ev["canon"] for ev in r.events if ev["ev"] == "dir")
            twice = [c for c, n in canon.items() if n > 1]
            if twice:
                res.viol("hook dir: real directory entered more than once: %s" % [os.path.relpath(c, w) for c in twice[:3]], ctx)
                continue
            res.count("hook_dir_events", sum(canon.values()))
            for _l, k in links:
                res.cover("link_kinds", k)
            res.cover("cases", "follow" + ("-window" if window else "-neutral-window" if neutral else ""))
            res.cover("spelling", spelling)
            if two:
                res.count("two_followed_roots")
            behind = len(real_dirs) - sum(1 for dp, dn, fn in os.walk(root) for _ in [0])
            if len(real_dirs) > 1:
                res.nt("follow|%s|%s|%s|%d" % (sorted(k for _l, k in links), spelling, mode.strip(), len(ids)))
            res.sample({"query": query, "cwd": os.path.relpath(cwd, w), "rows": len(rows), "real_dirs_reachable": len(real_dirs),
                        "links": [(os.path.relpath(l, w), os.readlink(l)) for l, _k in links][:5]}, cap=3)
    finally:
        runner.rm_scratch(sc)
    return res


def main(chk):
    quick = chk.tier == "quick"
    n = 1600 if quick else 6000
    jobs = [{"id": "j%d" % i, "seed": job_seed(chk.seed, "C18", i), "queries": 6 if quick else 12} for i in range(n)]
    jobs += [{"id": "nu%d" % i, "kind": "nonutf8", "seed": job_seed(chk.seed, "C18", "nu%d" % i)} for i in range(12 if quick else 60)]
    chk.run_jobs(jobs, budget_s=420 if quick else 3000)
    return chk.finish(
        rule="random trees decorated with 1..8 links: absolute and relative targets, to directories inside / outside / above the root, to "
             "ancestors (cycles), to the root, to '.', chains, mutual pairs, self-links, links to files, dangling links, at any depth; root "
             "spelled relative, absolute, '.', or '../x' from another cwd (a target wrongly resolved against the cwd goes wrong visibly); "
             "bfs/dfs; a fifth of the unwindowed queries also follow links from a second root (the directory outside the tree); with `symlinks`: termination (CPU limit), every row exists, identity (real directory, name) listed exactly once, every "
             "identity reachable through directories and links-to-directories listed (no depth window), status 0 and empty stderr; without "
             "the option: exactly the plain walk. Non-trivial = a directory behind a link is reachable; distinct by (link kinds, spelling, "
             "mode, identities).",
        assumptions=["reachability is computed with os.path.realpath / os.path.isdir on the harness side", "with a depth window only the safety clauses are judged, except windows that exclude nothing (mindepth 0/1, maxdepth 0/90), which are judged like no window"],
        require={"link_kinds": 11, "cases": 6, "spelling": 5, "two_followed_roots": 50},
    )
