"""Reference semantics (DESIGN.md Appendix A), written from the property statements and docs/usage.md."""
import datetime
import os
import re
import stat
import zoneinfo

UNDEF = object()   # attribute undefined for this entry: don't-care

# ---- sizes (C14) ---------------------------------------------------------------------------

UNITS = {"": 1, "b": 1,
         "k": 1024, "kib": 1024, "kb": 1000,
         "m": 1024 ** 2, "mib": 1024 ** 2, "mb": 1000 ** 2,
         "g": 1024 ** 3, "gib": 1024 ** 3, "gb": 1000 ** 3,
         "t": 1024 ** 4, "tib": 1024 ** 4, "tb": 1000 ** 4}

_SIZE_RE = re.compile(r"^\s*(-?\d+(?:\.\d+)?)\s*([a-zA-Z]*)\s*$")


def parse_size_literal(s):
    """'<number><unit>' -> integer byte count, or None if it is not a size literal."""
    m = _SIZE_RE.match(s)
    if not m:
        return None
    unit = m.group(2).lower()
    if unit not in UNITS:
        return None
    from fractions import Fraction
    v = Fraction(m.group(1)) * UNITS[unit]
    if v.denominator != 1:
        return int(v)  # truncation toward zero; generators only use integral products
    return int(v)


# ---- wildcards (C12) -----------------------------------------------------------------------

def wild_match(pattern, s, many, one, ci=True, opt=None):
    """Whole-string wildcard match by dynamic programming (no regex translation).
    many: any run (incl. empty); one: exactly one character; opt (only used by defect models):
    zero or one character. Every other character matches itself."""
    if ci:
        pattern = ascii_lower(pattern)
        s = ascii_lower(s)
    S = len(s)
    row = [True] + [False] * S      # row[j]: pattern[:i] matches s[:j]
    for pc in pattern:
        new = [False] * (S + 1)
        if pc == many:
            new[0] = row[0]
            for j in range(1, S + 1):
                new[j] = row[j] or new[j - 1]
        elif opt is not None and pc == opt:
            new[0] = row[0]
            for j in range(1, S + 1):
                new[j] = row[j] or row[j - 1]
        else:
            for j in range(1, S + 1):
                if row[j - 1] and (pc == one or pc == s[j - 1]):
                    new[j] = True
        row = new
    return row[S]


def ascii_lower(s):
    return "".join(chr(ord(c) + 32) if "A" <= c <= "Z" else c for c in s)


def glob_match(pattern, s):
    return wild_match(pattern, s, "*", "?")


def like_match(pattern, s):
    return wild_match(pattern, s, "%", "_")


def is_glob(lit):
    return "*" in lit or "?" in lit


# ---- dates (C13) ---------------------------------------------------------------------------

_DATE_RE = re.compile(r"^(\d{4})[-:](\d{1,2})[-:](\d{1,2})(?: (\d{1,2})(?::(\d{1,2})(?::(\d{1,2}))?)?)?$")


def date_interval(lit, tz, now=None):
    """Closed interval [a, b] of naive local wall-clock datetimes denoted by the literal, or None."""
    m = _DATE_RE.match(lit)
    if m:
        y, mo, d = int(m.group(1)), int(m.group(2)), int(m.group(3))
        try:
            if m.group(4) is None:
                return (datetime.datetime(y, mo, d, 0, 0, 0), datetime.datetime(y, mo, d, 23, 59, 59))
            h = int(m.group(4))
            if m.group(5) is None:
                return (datetime.datetime(y, mo, d, h, 0, 0), datetime.datetime(y, mo, d, h, 59, 59))
            mi = int(m.group(5))
            if m.group(6) is None:
                return (datetime.datetime(y, mo, d, h, mi, 0), datetime.datetime(y, mo, d, h, mi, 59))
            s = int(m.group(6))
            t = datetime.datetime(y, mo, d, h, mi, s)
            return (t, t)
        except ValueError:
            return None
    now = now or datetime.datetime.now(zoneinfo.ZoneInfo(tz))
    today = now.date()
    day = None
    if lit == "today":
        day = today
    elif lit == "yesterday":
        day = today - datetime.timedelta(days=1)
    elif re.match(r"^[+-]\d+$", lit):
        day = today + datetime.timedelta(days=int(lit))
    if day is not None:
        return (datetime.datetime.combine(day, datetime.time(0, 0, 0)),
                datetime.datetime.combine(day, datetime.time(23, 59, 59)))
    return None


def local_naive(ts, tz):
    """Local wall-clock datetime (naive) of the POSIX timestamp's whole second."""
    return datetime.datetime.fromtimestamp(int(ts), zoneinfo.ZoneInfo(tz)).replace(tzinfo=None)


def fmt_dt(dt):
    return dt.strftime("%Y-%m-%d %H:%M:%S")


def date_cmp(op, t, a, b):
    if op in ("=", "==", "eq"):
        return a <= t <= b
    if op in ("!=", "<>", "ne"):
        return not (a <= t <= b)
    if op in ("<", "lt"):
        return t < a
    if op in (">", "gt"):
        return t > b
    if op in ("<=", "lte", "le"):
        return t <= b
    if op in (">=", "gte", "ge"):
        return t >= a
    if op in ("===", "eeq"):
        return t == a
    if op in ("!==", "ene"):
        return t != a
    raise ValueError(op)


# ---- attributes (C02, C04) -----------------------------------------------------------------

NUMERIC_COLS = ("size", "uid", "gid", "hardlinks", "line_count", "inode", "blocks")
TEXT_COLS = ("name", "path", "ext", "dir", "mode")
PERM_BOOLS = {
    "user_read": 0o400, "user_write": 0o200, "user_exec": 0o100,
    "group_read": 0o040, "group_write": 0o020, "group_exec": 0o010,
    "other_read": 0o004, "other_write": 0o002, "other_exec": 0o001,
    "suid": 0o4000, "sgid": 0o2000,
}
PERM_ALL = {"user_all": 0o700, "group_all": 0o070, "other_all": 0o007}
TYPE_BOOLS = {"is_file": "file", "is_dir": "dir", "is_symlink": "symlink", "is_pipe": "fifo",
              "is_char": "chr", "is_block": "blk", "is_socket": "socket"}


# extension classes: filled from the configuration fselect itself writes (see checks that use them)
EXT_LISTS = {}


def load_ext_lists(config_toml_path):
    import tomllib
    with open(config_toml_path, "rb") as f:
        cfg = tomllib.load(f)
    for k in ("is_archive", "is_audio", "is_book", "is_doc", "is_font", "is_image", "is_source", "is_video"):
        EXT_LISTS[k] = list(cfg[k])


def ext_of(name):
    i = name.rfind(".")
    if i <= 0:
        return ""
    return name[i + 1:]


def count_newlines(path):
    n = 0
    with open(path, "rb") as f:
        while True:
            b = f.read(1 << 16)
            if not b:
                break
            n += b.count(b"\n")
    return n


def col_value(e, col, prefix, tz="UTC"):
    """Value of a documented column for entry e. prefix = how the root is spelled in the query
    (rows print as prefix + '/' + rel). Returns (type, value) or UNDEF."""
    st = e.st
    if col == "name":
        return ("text", e.name)
    if col == "path":
        return ("text", join_root(prefix, e.rel))
    if col == "dir":
        p = join_root(prefix, e.rel)
        return ("text", os.path.dirname(p))
    if col == "ext":
        return ("text", ext_of(e.name))
    if col == "size":
        return ("int", st.st_size)
    if col == "uid":
        return ("int", st.st_uid)
    if col == "gid":
        return ("int", st.st_gid)
    if col == "hardlinks":
        return ("int", st.st_nlink)
    if col == "inode":
        return ("int", st.st_ino)
    if col == "blocks":
        return ("int", st.st_blocks)
    if col == "mode":
        return ("text", stat.filemode(st.st_mode))
    if col == "length(name)":
        return ("int", len(e.name))
    if col == "line_count":
        if e.kind != "file":
            return UNDEF
        try:
            return ("int", count_newlines(e.abs))
        except OSError:
            return UNDEF
    if col in PERM_BOOLS:
        return ("bool", bool(st.st_mode & PERM_BOOLS[col]))
    if col in PERM_ALL:
        return ("bool", (st.st_mode & PERM_ALL[col]) == PERM_ALL[col])
    if col in TYPE_BOOLS:
        return ("bool", e.kind == TYPE_BOOLS[col])
    if col == "is_hidden":
        return ("bool", e.name.startswith("."))
    if col == "is_empty":
        if e.kind == "dir":
            try:
                return ("bool", len(os.listdir(e.abs)) == 0)
            except OSError:
                return UNDEF
        return ("bool", st.st_size == 0)
    if col == "modified":
        return ("date", local_naive(st.st_mtime, tz))
    if col == "absdir":
        return ("text", os.path.realpath(os.path.dirname(e.abs)))
    if col == "abspath":
        return ("text", os.path.join(os.path.realpath(os.path.dirname(e.abs)), e.name))
    if col in EXT_LISTS:
        low = ascii_lower(e.name)
        return ("bool", any(low.endswith(x) for x in EXT_LISTS[col]))
    raise KeyError(col)


def join_root(prefix, rel):
    if prefix.endswith("/"):
        return prefix + rel
    return prefix + "/" + rel


BOOL_LITS = {"true": True, "false": False, "1": True, "0": False, "yes": True, "no": False}

OPS_EQ = ("=", "==", "eq")
OPS_NE = ("!=", "<>", "ne")
OPS_EEQ = ("===", "eeq")
OPS_ENE = ("!==", "ene")
OPS_GT = (">", "gt")
OPS_GTE = (">=", "gte", "ge")
OPS_LT = ("<", "lt")
OPS_LTE = ("<=", "lte", "le")
OPS_RX = ("=~", "~=", "regexp", "rx")
OPS_NRX = ("!=~", "!~=", "notrx")


def canon_op(op):
    op = op.lower()
    for canon, group in (("=", OPS_EQ), ("!=", OPS_NE), ("===", OPS_EEQ), ("!==", OPS_ENE), (">", OPS_GT),
                         (">=", OPS_GTE), ("<", OPS_LT), ("<=", OPS_LTE), ("=~", OPS_RX), ("!=~", OPS_NRX)):
        if op in group:
            return canon
    if op in ("like", "notlike", "between", "not like", "not between"):
        return op.replace(" ", "")
    raise ValueError(op)


def int_cmp(op, v, lit):
    return {"=": v == lit, "===": v == lit, "!=": v != lit, "!==": v != lit, ">": v > lit, ">=": v >= lit,
            "<": v < lit, "<=": v <= lit}[op]


def text_cmp(op, v, lit):
    if op == "=":
        return glob_match(lit, v) if is_glob(lit) else v == lit
    if op == "!=":
        return not (glob_match(lit, v) if is_glob(lit) else v == lit)
    if op == "===":
        return v == lit
    if op == "!==":
        return v != lit
    if op == "like":
        return like_match(lit, v)
    if op == "notlike":
        return not like_match(lit, v)
    if op == "=~":
        return re.search(lit, v) is not None
    if op == "!=~":
        return re.search(lit, v) is None
    raise ValueError(op)


def compare(typ, op, v, lit, tz="UTC", now=None):
    """lit: python int for 'int', str for 'text', bool for 'bool', literal string for 'date'."""
    op = canon_op(op)
    if typ == "int":
        return int_cmp(op, v, lit)
    if typ == "text":
        return text_cmp(op, v, lit)
    if typ == "bool":
        # ordering operators on booleans: false < true (the usual SQL order)
        return {"=": v == lit, "===": v == lit, "!=": v != lit, "!==": v != lit, ">": v > lit, ">=": v >= lit,
                "<": v < lit, "<=": v <= lit}[op]
    if typ == "date":
        iv = date_interval(lit, tz, now)
        if iv is None:
            raise ValueError("bad date literal " + lit)
        return date_cmp(op, v, iv[0], iv[1])
    raise ValueError(typ)


RX_META = set("\\.+*?()|[]{}^$#&-~")


def rx_escape(s):
    return "".join("\\" + c if c in RX_META else c for c in s)


def quote_lit(s):
    """Quote a text literal for the query language (the three quote styles are interchangeable)."""
    if "'" not in s:
        return "'" + s + "'"
    if '"' not in s:
        return '"' + s + '"'
    if "`" not in s:
        return "`" + s + "`"
    raise ValueError("cannot quote " + repr(s))


# ---- aggregates (C07, C08) -----------------------------------------------------------------

AGGS = ["count", "sum", "min", "max", "avg", "var_pop", "var_samp", "stddev_pop", "stddev_samp"]
AGG_ALIASES = {"var_pop": ["var_pop", "variance"], "stddev_pop": ["stddev_pop", "stddev", "std"]}


def aggregate(fn, values):
    """Textbook value of aggregate `fn` over a list of ints: exact Fraction/int, float for the roots,
    or None when the statement does not define it (sample statistics of < 2 values, anything but
    COUNT/SUM over no rows)."""
    import math
    from fractions import Fraction
    n = len(values)
    if fn == "count":
        return n
    if fn == "sum":
        return sum(values)
    if n == 0:
        return None
    if fn == "min":
        return min(values)
    if fn == "max":
        return max(values)
    mean = Fraction(sum(values), n)
    if fn == "avg":
        return mean
    ss = sum((Fraction(v) - mean) ** 2 for v in values)
    if fn == "var_pop":
        return ss / n
    if fn == "stddev_pop":
        return math.sqrt(ss / n)
    if n < 2:
        return None
    if fn == "var_samp":
        return ss / (n - 1)
    if fn == "stddev_samp":
        return math.sqrt(ss / (n - 1))
    raise ValueError(fn)


def agg_matches(fn, printed, expected):
    """True/False, or None for don't-care."""
    from fractions import Fraction
    if expected is None:
        return None
    if fn in ("count", "sum", "min", "max"):
        try:
            return int(printed) == expected
        except ValueError:
            return False
    try:
        got = float(printed)
    except ValueError:
        return False
    want = float(expected)
    if got != got or got in (float("inf"), float("-inf")):
        return False
    return abs(got - want) <= max(1e-9 * abs(want), 1e-12)
