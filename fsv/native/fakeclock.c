/* Controlled clock for the monitored process (LD_PRELOAD): CLOCK_REALTIME is pinned to
 * FSV_FAKE_EPOCH (seconds since the epoch) plus the real time elapsed since the first call,
 * so "now" is reproducible while time still advances. Everything else is passed through. */
#define _GNU_SOURCE
#include <dlfcn.h>
#include <stdlib.h>
#include <sys/time.h>
#include <time.h>

static int (*real_clock_gettime)(clockid_t, struct timespec *);
static long long offset_ns;
static int ready;

static void init(void) {
    real_clock_gettime = dlsym(RTLD_NEXT, "clock_gettime");
    const char *e = getenv("FSV_FAKE_EPOCH");
    if (e && real_clock_gettime) {
        struct timespec now;
        real_clock_gettime(CLOCK_REALTIME, &now);
        long long want = atoll(e) * 1000000000LL;
        offset_ns = want - ((long long)now.tv_sec * 1000000000LL + now.tv_nsec);
    }
    ready = 1;
}

int clock_gettime(clockid_t id, struct timespec *ts) {
    if (!ready) init();
    int rc = real_clock_gettime(id, ts);
    if (rc == 0 && (id == CLOCK_REALTIME || id == CLOCK_REALTIME_COARSE) && offset_ns) {
        long long t = (long long)ts->tv_sec * 1000000000LL + ts->tv_nsec + offset_ns;
        ts->tv_sec = t / 1000000000LL;
        ts->tv_nsec = t % 1000000000LL;
    }
    return rc;
}

int gettimeofday(struct timeval *tv, void *tz) {
    struct timespec ts;
    (void)tz;
    if (clock_gettime(CLOCK_REALTIME, &ts) != 0) return -1;
    if (tv) { tv->tv_sec = ts.tv_sec; tv->tv_usec = ts.tv_nsec / 1000; }
    return 0;
}

time_t time(time_t *out) {
    struct timespec ts;
    clock_gettime(CLOCK_REALTIME, &ts);
    if (out) *out = ts.tv_sec;
    return ts.tv_sec;
}
