#!/usr/bin/env python3
"""Self-test: apply one hand-made break to /repo's working tree, run the named checks, revert.

usage: selftest/mutate.py <mutant-id>... [--tier quick]      (mutants are listed in selftest/mutants.json)
       selftest/mutate.py --all [--prop C01]
Each mutant: {id, prop, file, old, new, note}. `old` must occur exactly once in `file`.
The working tree of /repo must be clean; it is restored with `git checkout -- .` afterwards.
Results are appended to selftest/results.jsonl."""
import json
import os
import subprocess
import sys
import time

HERE = os.path.dirname(os.path.abspath(__file__))
VERIF = os.path.dirname(HERE)
REPO = os.environ.get("FSV_REPO", "/repo")      # scratch mode: another worktree (see DESIGN.md section 10)


def sh(cmd, **kw):
    return subprocess.run(cmd, shell=True, text=True, stdout=subprocess.PIPE, stderr=subprocess.STDOUT, **kw)


def main():
    args = [a for a in sys.argv[1:] if not a.startswith("--")]
    tier = "quick"
    if "--tier" in sys.argv:
        tier = sys.argv[sys.argv.index("--tier") + 1]
        args = [a for a in args if a != tier]
    only_prop = None
    if "--prop" in sys.argv:
        only_prop = sys.argv[sys.argv.index("--prop") + 1]
        args = [a for a in args if a != only_prop]
    if "--after" in sys.argv:
        args = [a for a in args if a != sys.argv[sys.argv.index("--after") + 1]]
    muts = json.load(open(os.path.join(HERE, "mutants.json")))
    if "--all" in sys.argv:
        sel = [m for m in muts if not only_prop or m["prop"] == only_prop]
    else:
        sel = [m for m in muts if m["id"] in args]
    if sh("git -C %s status --porcelain --untracked-files=no" % REPO).stdout.strip():
        print("refusing: /repo working tree is not clean")
        return 2
    if "--after" in sys.argv:       # resume: skip everything up to and including this mutant id
        last = sys.argv[sys.argv.index("--after") + 1]
        ids = [m["id"] for m in sel]
        sel = sel[ids.index(last) + 1:]
    for m in sel:
        path = os.path.join(REPO, m["file"])
        src = open(path).read()
        if src.count(m["old"]) != 1:
            print("%s: anchor occurs %d times, skipped" % (m["id"], src.count(m["old"])))
            continue
        try:
            open(path, "w").write(src.replace(m["old"], m["new"]))
            for extra in m.get("also", []):
                p2 = os.path.join(REPO, extra["file"])
                s2 = open(p2).read()
                if s2.count(extra["old"]) != 1:
                    raise RuntimeError("%s: secondary anchor occurs %d times" % (m["id"], s2.count(extra["old"])))
                open(p2, "w").write(s2.replace(extra["old"], extra["new"]))
            t0 = time.time()
            checks = m.get("checks") or [m["prop"]]
            outcome = {}
            for c in checks:
                p = sh("./check %s --tier %s" % (c, tier), cwd=VERIF)
                viol = [l for l in p.stdout.splitlines() if l.startswith("VIOLATION")]
                first = ""
                lines = p.stdout.splitlines()
                for i, l in enumerate(lines):
                    if l.startswith("VIOLATION") and i + 1 < len(lines):
                        first = lines[i + 1].strip()[:200]
                        break
                outcome[c] = {"rc": p.returncode, "violations": len(viol), "first": first}
                if p.returncode not in (0, 1):
                    print(p.stdout[-1500:])
            rec = {"mutant": m["id"], "prop": m["prop"], "tier": tier, "outcome": outcome,
                   "detected": any(o["rc"] == 1 for o in outcome.values()), "wall_s": round(time.time() - t0, 1)}
            print(json.dumps(rec))
            with open(os.path.join(HERE, "results.jsonl"), "a") as f:
                f.write(json.dumps(rec) + "\n")
        finally:
            sh("git -C %s checkout -- . && find %s/src -name '*.rs' -exec touch {} +" % (REPO, REPO))
    return 0


if __name__ == "__main__":
    sys.exit(main())
