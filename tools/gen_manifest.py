#!/usr/bin/env python3
"""Regenerates /verif/MANIFEST.json from the table below and validates it against the schema.
A property is claimed only when its check module exists in fsv/checks/."""
import json
import os
import subprocess

VERIF = os.path.dirname(os.path.dirname(os.path.abspath(__file__)))

HOOK_COMMITS_CMD = "git -C /repo log --format=%h --grep='^verif hooks' --reverse"

CHECKS = {
    "C01": dict(
        level="exploration",
        technique="runtime monitoring: reference-walk oracle over real executions + order monitors + hook-event invariants (dir depth, enter-once, row count)",
        text="Every run of the real binary on generated trees (all creatable entry kinds, 1-3 roots, 7 root spellings, windows 0..depth+2, "
             "default/bfs/dfs) is compared with a reference walk of the lstat snapshot; bfs/dfs order is monitored on the observed sequence; "
             "hook events check the depth the implementation computed and that no directory is entered twice. All directory-tree shapes up to a "
             "bound x all windows 0..4 x bfs/dfs are enumerated completely. Held-on-observed, not a proof.",
        note="Trusted: Python os.lstat/os.listdir as ground truth; tmpfs semantics; binary built without LTO; path spelling is not judged.",
        ref="DESIGN.md section 3 / C01",
    ),
}

NOT_APPLICABLE = {}


def main():
    hooks = subprocess.run(HOOK_COMMITS_CMD, shell=True, text=True, stdout=subprocess.PIPE).stdout.split()
    props = [json.loads(l)["id"] for l in open(os.path.join(VERIF, "properties.jsonl"))]
    checks = []
    na = []
    for pid in props:
        c = CHECKS.get(pid)
        have = os.path.exists(os.path.join(VERIF, "fsv", "checks", pid.lower() + ".py"))
        if c and have:
            checks.append({
                "property_id": pid,
                "quick_cmd": "./check %s --tier quick" % pid,
                "thorough_cmd": "./check %s --tier thorough" % pid,
                "evidence_file": "/verif/evidence/%s.json" % pid,
                "replay_cmd_template": "./check %s --replay {path}" % pid,
                "engine": "fsv",
                "level_claimed": {"category": c["level"], "text": c["text"], "design_ref": c["ref"]},
                "level_note": c["note"],
                "technique": c["technique"],
            })
        else:
            na.append({"property_id": pid,
                       "reason": NOT_APPLICABLE.get(pid, "check not built yet in this session (work in progress; the design in DESIGN.md applies the same runtime-monitoring technique)")})
    man = {
        "version": 1,
        "setup_cmd": "python3 -m fsv.build mon",
        "hooks": {
            "guard": "cargo feature `verif`",
            "enable": "cargo build --release --features verif (CARGO_PROFILE_RELEASE_LTO=false, target dir /verif/.cache/target-mon); events are written only when FSELECT_VERIF_TRACE=<file> is set",
            "baseline_off_cmd": "cd /repo && cargo test --workspace --no-fail-fast --offline",
            "source_commits": hooks,
            "add_only": True,
        },
        "engines": [{
            "name": "fsv",
            "path": "/verif/fsv",
            "serves_properties": [c["property_id"] for c in checks],
            "kind_free_text": "Python harness that runs the real fselect binary (built from /repo's working tree with hooks) on generated trees and queries, "
                              "with reference-model / metamorphic oracles, hook-event monitors, strace-based syscall fault injection and sanitizer shards",
        }],
        "checks": checks,
        "not_applicable": na,
        "notes": "All checks: exit 0 = held on everything observed, 1 = VIOLATION line(s) with replay file, 2 = inconclusive (harness/build broken or required coverage missing). "
                 "Known findings are listed in /verif/known_findings.json. VERIF_SEED selects the workload.",
    }
    if not na:
        del man["not_applicable"]
    path = os.path.join(VERIF, "MANIFEST.json")
    with open(path, "w") as f:
        json.dump(man, f, indent=1)
        f.write("\n")
    try:
        import jsonschema
        jsonschema.validate(man, json.load(open("/root/.vp/MANIFEST.schema.json")))
        print("MANIFEST.json valid: %d checks, %d not_applicable" % (len(checks), len(na)))
    except ImportError:
        print("MANIFEST.json written (jsonschema not importable here; validate with python3-vt)")


if __name__ == "__main__":
    main()
