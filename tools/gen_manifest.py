#!/usr/bin/env python3
"""Regenerates /verif/MANIFEST.json from the table below and validates it against the schema.
A property is claimed only when its check module exists in fsv/checks/."""
import json
import os
import subprocess

VERIF = os.path.dirname(os.path.dirname(os.path.abspath(__file__)))

HOOK_COMMITS_CMD = "git -C /repo log --format=%h --grep='^verif hooks' --reverse"

CHECKS = {
    "C01": dict(
        level="exploration",
        technique="runtime monitoring: reference-walk oracle over real executions + order monitors + hook-event invariants (dir depth, enter-once, row count)",
        text="Every run of the real binary on generated trees (all creatable entry kinds, 1-3 roots, 7 root spellings, windows 0..depth+2, "
             "default/bfs/dfs) is compared with a reference walk of the lstat snapshot; bfs/dfs order is monitored on the observed sequence; "
             "hook events check the depth the implementation computed and that no directory is entered twice. All directory-tree shapes up to a "
             "bound x all windows 0..4 x bfs/dfs are enumerated completely. Held-on-observed, not a proof.",
        note="Trusted: Python os.lstat/os.listdir as ground truth; tmpfs semantics; binary built without LTO; path spelling is not judged.",
        ref="DESIGN.md section 3 / C01",
    ),
    "C02": dict(
        level="exploration",
        technique="runtime monitoring: typed reference-comparison oracle over real executions on generated trees",
        text="Thousands of `where <col> <op> <literal>` executions of the real binary per run (numeric, text, boolean, date columns, BETWEEN, "
             "column-vs-column, quoted identifier-like literals, negative literals, units) are compared entry by entry with a reference "
             "written from the documentation; a (type x operator) coverage matrix must be filled or the run is inconclusive.",
        note="Trusted: fsv/model.py comparison semantics (from docs/usage.md and the statement), os.lstat ground truth. Ordering operators on text columns are not generated.",
        ref="DESIGN.md section 3 / C02"),
    "C03": dict(
        level="exploration",
        technique="runtime monitoring: metamorphic set-algebra oracle over fselect's own atom results; bounded-exhaustive formula enumeration",
        text="rows(F) is compared with F evaluated by set algebra over the rows fselect itself returns for F's atoms, for every formula with "
             "<= 2 (quick) / <= 3 (thorough) connectives over three atoms of every operator kind on a tree realising all 8 truth assignments, "
             "plus random deep formulas with mixed brackets and keyword case.",
        note="Trusted: set algebra in Python; atoms range over always-present columns only.",
        ref="DESIGN.md section 3 / C03"),
    "C05": dict(
        level="exploration",
        technique="runtime monitoring: metamorphic permutation + adjacent-pair order oracle; comparator antisymmetry monitor on hook events",
        text="Ordered results are checked to be a permutation of the unordered rows and pairwise in order under a numeric / chronological / "
             "code-point comparator, with key values learned from fselect itself; Criteria::cmp events are checked for antisymmetry.",
        note="Trusted: printed key values (metamorphic); ties may be in any order.",
        ref="DESIGN.md section 3 / C05"),
    "C06": dict(
        level="exploration",
        technique="runtime monitoring: metamorphic oracle against the unlimited query, exhaustive in N; TopN/row hook invariants",
        text="For every generated query every N in 1..M+2 (and 0 / absent) is executed: row count, sub-multiset and top-N key prefix are checked "
             "against the unlimited result, on streamed, ordered, multi-root, bfs/dfs and archive searches.",
        note="Trusted: stable readdir order between two runs on an unchanged tmpfs tree.",
        ref="DESIGN.md section 3 / C06"),
    "C07": dict(
        level="exploration",
        technique="runtime monitoring: metamorphic row multiset + exact Fraction arithmetic oracle",
        text="Aggregate cells are compared with exact/textbook values computed from the multiset that the non-aggregate query returns, for trees with 0, 1, 2, many rows, fractional means and huge sparse sizes; all 511 subsets of the nine functions in the thorough tier.",
        note="Trusted: Python Fraction/math; don't-care for sample statistics of < 2 rows and empty MIN/MAX/AVG.",
        ref="DESIGN.md section 3 / C07"),
    "C08": dict(
        level="exploration",
        technique="runtime monitoring: metamorphic (key, value) rows + exact per-group recomputation + conservation against the ungrouped query",
        text="Group rows are matched one-to-one with the distinct key values of the ungrouped rows, every aggregate is recomputed per group, COUNT/SUM conservation is checked against the ungrouped aggregate query, and ORDER BY on key / integer aggregate / AVG is checked.",
        note="Trusted: as C07; group order unspecified without ORDER BY.",
        ref="DESIGN.md section 3 / C08"),
    "C09": dict(
        level="exploration",
        technique="runtime monitoring: independent decoders (json.loads, strict RFC 4180 parser, tag-stack HTML parser) against the NUL-separated table; writer-protocol monitor on hook events",
        text="Every format on every result path (streamed, ordered, aggregate, grouped) is decoded and compared with the `into list` table for hostile file names; `out` hook events must follow header (row (sep row)*)? footer.",
        note="Trusted: Python json/html.parser, the strict CSV parser in fsv/checks/c09.py.",
        ref="DESIGN.md section 3 / C09"),
    "C12": dict(
        level="exploration",
        technique="runtime monitoring: wildcard-DP / literal / regex-subset reference matcher, complementarity check, regex-cache coherence monitor on hook events",
        text="Positive and negative operator of each kind are run on every derived pattern over names full of regex metacharacters and compared with a matcher that shares no code with a regex translation; `rx` hook events check that a cached regex is only reused by the operator class that compiled it.",
        note="Trusted: fsv/model.py wild_match, Python re on the generated sub-language. Known finding: LIKE `?`.",
        ref="DESIGN.md section 3 / C12"),
    "C13": dict(
        level="exploration",
        technique="runtime monitoring: interval reference under pinned TZ (zoneinfo), edge-grid mtimes, trichotomy monitor",
        text="For each literal a directory with mtimes on both sides of both interval edges is searched with all 8 operators under five time zones (one with DST switches at local midnight); printed `modified` is compared with the local rendering of st_mtime.",
        note="Trusted: Python zoneinfo with the system tzdata; relative literals judged only when the local date did not change during the run.",
        ref="DESIGN.md section 3 / C13"),
    "C14": dict(
        level="exploration",
        technique="runtime monitoring: unit-table reference on sparse files; grammar / monotonicity / round-trip relation monitors over the complete specifier grammar",
        text="Every unit suffix in several letter cases with integer and fractional numbers is compared against files of v-1, v, v+1 bytes; every specifier of the documented grammar is rendered over a logarithmic size grid and checked for grammar, monotonicity and round trip.",
        note="Trusted: documented multiplier table; exact strings are humansize's business and not modelled.",
        ref="DESIGN.md section 3 / C14"),
    "C11": dict(
        level="exploration",
        technique="runtime monitoring: metamorphic comparison of the parsed-Query dump (debug configuration), status and rows across renderings; exhaustive alias substitution",
        text="Every generated query is rendered canonically and compared with every whitespace split set (exhaustive up to 8 free gaps), every case variant of each word token, every documented alias (all 76 alias pairs of the documentation tables, one at a time and in random combinations), curly brackets and every optional token.",
        note="Trusted: `debug = true` prints the parsed Query with {:#?}. A root path ends its shell word (documented convention for paths with spaces), so split sets that glue further words to a root are not spellings of the same query.",
        ref="DESIGN.md section 3 / C11"),
    "C15": dict(
        level="exploration",
        technique="runtime monitoring: IEEE-754 reference evaluation, metamorphic column-independence (permutations / alone), value-cache key monitor on hook events",
        text="Cells of generated expression lists are compared exactly with Python's double arithmetic; each list is re-run permuted and column by column; `where <expr> op n` is compared with the model value; `memo` hook events must never serve one cache key to two structurally different expressions.",
        note="Trusted: Python float = IEEE-754 double; integer columns have no negative zero; power() overflow don't-care.",
        ref="DESIGN.md section 3 / C15"),
    "C16": dict(
        level="exploration",
        technique="runtime monitoring: per-function Python reference on literals and column values, nested calls, wrong-kind arguments must end with status 0/2 without panic",
        text="Each documented scalar function and alias is evaluated on ASCII / multi-byte / combining / whitespace / numeric / out-of-range arguments, on literals and on name/size/modified of generated entries, nested to depth 3, and with ill-typed, missing and huge arguments.",
        note="Trusted: Python str/base64/math/datetime; don't-care list in the evidence assumptions.",
        ref="DESIGN.md section 3 / C16"),
    "C04": dict(
        level="exploration",
        technique="runtime monitoring: OS-truth oracle (lstat / listxattr / hashlib / pwd) over real executions; exhaustive permission and capability sub-spaces; blocked-forever watchdog",
        text="Cells printed by the real binary are compared with what the OS and the content say: all 4096 permission values on disk (files) and a 512-value sample of directories, every creatable entry kind, owners with and without names, three time zones, contents up to 1 MiB at buffer boundaries, user xattrs, each of the 41 capabilities x 6 flag sets, every extension list under default and overridden configuration, zip entry modes for 7 types, content columns on FIFOs/sockets/devices.",
        note="Trusted: Python os/stat/hashlib/pwd/grp/zipfile; tmpfs semantics. Content columns of symlinks and contains() on non-UTF-8 files are don't-care.",
        ref="DESIGN.md section 3 / C04"),
    "C10": dict(
        level="exploration",
        technique="runtime monitoring: safety monitor over hostile argument vectors (status in {0,1,2}, no panic text, no signal, RLIMIT_CPU busy-loop verdict, /proc-classified blocking), directed expected-status classes",
        text="Token soups, token-level mutations of valid queries, functions with ill-typed / missing / huge arguments and 60 directed malformed queries (one-argument and fully split) are executed against a non-empty tree; every run is judged for termination, status and diagnostics.",
        note="Trusted: RLIMIT_CPU 5 s as the busy-loop decider; soups are filtered to keep the search inside the scratch tree.",
        ref="DESIGN.md section 3 / C10"),
    "C19": dict(
        level="fault_enumeration",
        technique="runtime monitoring: zipfile.infolist() reference + metamorphic comparison with the query without `archives`; complete enumeration of truncation points and central-directory byte flips; strace read-fault injection; LD_PRELOAD controlled clock; chk hook events",
        text="Member rows are compared with the central directory of archives the harness wrote (exactly once, size/is_dir/mode/modified, WHERE, ORDER BY), ordinary rows with the same query without `archives`; every truncation point and 3 bit patterns on every central-directory byte of a small archive are searched next to an intact one; read/lseek/openat errors are injected on one archive; searches run under a pinned clock at month ends and leap days.",
        note="Trusted: Python zipfile as the reference writer/reader; strace -e inject; the fake-clock shim (fsv/native/fakeclock.c).",
        ref="DESIGN.md section 3 / C19"),
    "C17": dict(
        level="fault_enumeration",
        technique="runtime monitoring under injected faults: real EACCES as an unprivileged user, strace -e inject on every directory syscall of a traced run, EPIPE on every stdout write index, real pipe closures; err hook conservation",
        text="Every single directory (and sampled pairs) is made unlistable and searched as uid 65534; every getdents64 / openat(O_DIRECTORY) call and the readlink / statx / newfstatat / openat(file) / read calls of a traced fault-free run fail once with several errnos; every write(2) index to stdout fails with EPIPE for 6 formats x 4 result paths; real 4 KiB pipes are closed after k bytes. Rows outside the fault, diagnostics, status and the error counter (hook) are judged.",
        note="Trusted: strace 6.1 fault injection semantics; setpriv for the unprivileged child; rows inside a failing directory may be any subset.",
        ref="DESIGN.md section 3 / C17"),
    "C18": dict(
        level="exploration",
        technique="runtime monitoring: identity-based exactly-once oracle over realpath reachability, termination by CPU limit, dir hook events keyed by canonical path",
        text="Trees decorated with links of every kind (relative/absolute, inside/outside/above the root, ancestors, root, '.', chains, mutual, self, to files, dangling) are searched with and without `symlinks` from four root spellings and cwds; rows are mapped to (real directory, name) identities that must be listed exactly once and cover everything reachable; each real directory may be entered once (hook).",
        note="Trusted: os.path.realpath/isdir for reachability. With a depth window only the safety clauses are judged.",
        ref="DESIGN.md section 3 / C18"),
    "C20": dict(
        level="exploration",
        technique="runtime monitoring: differential oracle against the real `git check-ignore`, reference matchers for the generated hg / docker pattern subset, option/config/override matrix",
        text="Generated repositories and ignore files (literal names, *.ext, dir/, dir/*.ext, **/name, ?, /rooted, comments, negations, hg syntax sections and regexps, nested .gitignore) are searched from six root spellings (., relative from outside and inside, absolute, sub-directory relative/absolute) with the option, the configuration default, the no... override and off; the omitted set must equal the tool's ignored set.",
        note="Trusted: git 2.39 check-ignore; fsv/checks/c20.py reference matchers (DESIGN.md Appendix A). Known finding: libgit2 drops nested-file negations.",
        ref="DESIGN.md section 3 / C20"),
}

NOT_APPLICABLE = {}


def main():
    hooks = subprocess.run(HOOK_COMMITS_CMD, shell=True, text=True, stdout=subprocess.PIPE).stdout.split()
    props = [json.loads(l)["id"] for l in open(os.path.join(VERIF, "properties.jsonl"))]
    checks = []
    na = []
    for pid in props:
        c = CHECKS.get(pid)
        have = os.path.exists(os.path.join(VERIF, "fsv", "checks", pid.lower() + ".py"))
        if c and have:
            checks.append({
                "property_id": pid,
                "quick_cmd": "./check %s --tier quick" % pid,
                "thorough_cmd": "./check %s --tier thorough" % pid,
                "evidence_file": "/verif/evidence/%s.json" % pid,
                "replay_cmd_template": "./check %s --replay {path}" % pid,
                "engine": "fsv",
                "level_claimed": {"category": c["level"], "text": c["text"], "design_ref": c["ref"]},
                "level_note": c["note"],
                "technique": c["technique"],
            })
        else:
            na.append({"property_id": pid,
                       "reason": NOT_APPLICABLE.get(pid, "check not built yet in this session (work in progress; the design in DESIGN.md applies the same runtime-monitoring technique)")})
    man = {
        "version": 1,
        "setup_cmd": "python3 -m fsv.build mon",
        "hooks": {
            "guard": "cargo feature `verif`",
            "enable": "cargo build --release --features verif (CARGO_PROFILE_RELEASE_LTO=false, target dir /verif/.cache/target-mon); events are written only when FSELECT_VERIF_TRACE=<file> is set",
            "baseline_off_cmd": "cd /repo && cargo test --workspace --no-fail-fast --offline",
            "source_commits": hooks,
            "add_only": True,
        },
        "engines": [{
            "name": "fsv",
            "path": "/verif/fsv",
            "serves_properties": [c["property_id"] for c in checks],
            "kind_free_text": "Python harness that runs the real fselect binary (built from /repo's working tree with hooks) on generated trees and queries, "
                              "with reference-model / metamorphic oracles, hook-event monitors, strace-based syscall fault injection and sanitizer shards",
        }],
        "checks": checks,
        "not_applicable": na,
        "notes": "All checks: exit 0 = held on everything observed, 1 = VIOLATION line(s) with replay file, 2 = inconclusive (harness/build broken or required coverage missing). "
                 "Known findings are listed in /verif/known_findings.json. VERIF_SEED selects the workload.",
    }
    if not na:
        del man["not_applicable"]
    path = os.path.join(VERIF, "MANIFEST.json")
    with open(path, "w") as f:
        json.dump(man, f, indent=1)
        f.write("\n")
    try:
        import jsonschema
        jsonschema.validate(man, json.load(open("/root/.vp/MANIFEST.schema.json")))
        print("MANIFEST.json valid: %d checks, %d not_applicable" % (len(checks), len(na)))
    except ImportError:
        print("MANIFEST.json written (jsonschema not importable here; validate with python3-vt)")


if __name__ == "__main__":
    main()
