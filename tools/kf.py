#!/usr/bin/env python3
"""Maintains /verif/known_findings.json (committed; never written by a check at run time).

  tools/kf.py fixed <property> <commit> <what failed>
  tools/kf.py known <property> <id> <signature> <what fails>  [--why <why not repaired>]
  tools/kf.py list
"""
import json
import os
import sys

PATH = os.path.join(os.path.dirname(os.path.dirname(os.path.abspath(__file__))), "known_findings.json")


def load():
    try:
        return json.load(open(PATH))
    except FileNotFoundError:
        return {"findings": []}


def save(d):
    d["_format"] = ("status=known entries suppress exactly the violations whose signature matches (a defect-model "
                    "'quirk' that must predict the observed output bit for bit, or a crash-site signature); "
                    "status=fixed entries suppress nothing")
    with open(PATH, "w") as f:
        json.dump(d, f, indent=1)
        f.write("\n")


def main():
    d = load()
    cmd = sys.argv[1]
    if cmd == "fixed":
        prop, commit, what = sys.argv[2], sys.argv[3], " ".join(sys.argv[4:])
        line = "fixed: property=%s %s %s" % (prop, commit, what)
        if not any(f.get("line") == line for f in d["findings"]):
            d["findings"].append({"status": "fixed", "property": prop, "commit": commit, "line": line})
        save(d)
    elif cmd == "known":
        prop, fid, sig = sys.argv[2], sys.argv[3], sys.argv[4]
        rest = sys.argv[5:]
        why = ""
        if "--why" in rest:
            i = rest.index("--why")
            why = " ".join(rest[i + 1:])
            rest = rest[:i]
        d["findings"] = [f for f in d["findings"] if f.get("id") != fid]
        d["findings"].append({"status": "known", "property": prop, "id": fid, "signature": sig,
                              "what": " ".join(rest), "why_not_repaired": why})
        save(d)
    elif cmd == "list":
        for f in d["findings"]:
            print(f.get("line") or "known: property=%s %s [%s] %s" % (f["property"], f["id"], f["signature"], f["what"]))


if __name__ == "__main__":
    main()
