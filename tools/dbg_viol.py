#!/usr/bin/env python3
"""debug helper: run a check's jobs in-process and summarise violations by a regex key
usage: tools/dbg_viol.py C11 <njobs> '<regex with one group>' """
import importlib, os, re, sys, collections
sys.path.insert(0, os.path.dirname(os.path.dirname(os.path.abspath(__file__))))
from fsv import build, runner, core
prop, n, rx = sys.argv[1], int(sys.argv[2]), sys.argv[3]
mod = importlib.import_module("fsv.checks." + prop.lower())
runner.set_binary(build.build("mon")); runner.set_owner(os.getpid())
class Fake(core.Check):
    def run_jobs(self, jobs, budget_s=None):
        self.jobs = jobs
chk = Fake(prop, mod.__name__, "quick", int(os.environ.get("VERIF_SEED", "0")))
chk.finish = lambda *a, **k: 0
mod.main(chk)
cnt = collections.Counter(); ex = {}
import multiprocessing
ctx = multiprocessing.get_context("fork")
with ctx.Pool(16, initializer=core._worker_init, initargs=(runner.binary(), os.getpid())) as pool:
    for res in pool.imap_unordered(core._run_one, [(mod.__name__, j) for j in chk.jobs[:n]]):
        for v in res["violations"]:
            m = re.search(rx, v["what"])
            k = m.group(1) if m else v["what"][:60]
            cnt[k] += 1; ex.setdefault(k, v["what"][:300])
        for i in res["inconclusive"][:1]:
            cnt["INCONCLUSIVE " + i[:80]] += 1
for k, c in cnt.most_common(60):
    print(c, k, "|", ex.get(k, ""))
runner.cleanup_all()
