#!/bin/bash
# usage: tools/run_all.sh [quick|thorough] [IDs...]   - runs the registered checks one after another, prints one line each
cd "$(dirname "$0")/.."
tier=${1:-quick}; shift
ids=${@:-$(python3 -c "import json;print(' '.join(c['property_id'] for c in json.load(open('MANIFEST.json'))['checks']))")}
rc_all=0
for id in $ids; do
  out=$(./check $id --tier $tier 2>&1); rc=$?
  echo "$out" | grep -E "^KNOWN-FINDING|^VIOLATION|^INCONCLUSIVE" | cut -c1-220 | head -8
  echo "$out" | tail -1
  [ $rc -ne 0 ] && { echo "  -> exit $rc"; rc_all=1; }
done
exit $rc_all
