#!/bin/bash
# usage: tools/seed_matrix.sh [IDs...]   - applies every stored seeded change to /repo (or to the worktree named by FSV_REPO,
# which leaves /repo free) in turn, runs the quick tier of the property's own check, reverts, and appends {id, rc} to
# seeded/matrix.jsonl. The tree must be clean. Evidence goes to a scratch dir.
cd "$(dirname "$0")/.."
R=${FSV_REPO:-/repo}
ids=${@:-$(ls seeded | grep -E '^C[0-9]{2}[a-z]?$')}
[ -n "$(git -C $R status --porcelain --untracked-files=no)" ] && { echo "$R not clean"; exit 2; }
export FSV_OUT=${FSV_OUT:-/dev/shm/fsv-matrix}
mkdir -p $FSV_OUT
for id in $ids; do
  p=${id:0:3}
  git -C $R apply /verif/seeded/$id/patch.diff || { echo "{\"id\": \"$id\", \"rc\": \"patch does not apply\"}" | tee -a seeded/matrix.jsonl; continue; }
  find $R/src -name "*.rs" -exec touch {} +
  o=$(./check $p --tier quick 2>&1); rc=$?
  git -C $R checkout -- .; git -C $R clean -fdq -- src docs     # a patch may add files
  first=$(echo "$o" | grep -a -A1 "^VIOLATION" | sed -n 2p | python3 -c 'import sys; print(sys.stdin.buffer.read().decode("utf-8", "replace")[:160].replace("\n", " "), end="")' | tr '"\\' "' ")
  echo "{\"id\": \"$id\", \"check\": \"$p\", \"rc\": $rc, \"head\": \"$(git -C $R rev-parse --short HEAD)\", \"first\": \"$first\"}" | tee -a seeded/matrix.jsonl
done
