#!/bin/bash
# usage: tools/seed_eval.sh <ID> <agent-worktree> [checks...]
#  1. confirms in the agent's scratch worktree: test suite passes with the patch, demo fails with it and passes without
#  2. stores patch/demo/notes under /verif/seeded/<ID>/
#  3. applies the patch to /repo, runs the given checks (default: the property's own, quick tier), reverts
set -u
id=$1; wt=$2; shift 2
prop=${id%%-*}
checks=${@:-$prop}
out=/verif/seeded/$id
mkdir -p $out
cd $wt || exit 2
[ -s out/patch.diff ] || { echo "no patch.diff"; exit 2; }
git diff > /tmp/seed_eval_$id.diff
# make sure the worktree currently has exactly the patch applied
git checkout -q -- . && git clean -fdq -- src docs && git apply out/patch.diff || { echo "patch does not apply to a clean worktree"; exit 2; }
export CARGO_TARGET_DIR=$wt/target
t=$(cargo test --offline 2>&1 | grep -E "test result" | head -1)
bash out/demo.sh > /tmp/seed_eval_$id.patched.log 2>&1; rc_p=$?
git apply -R out/patch.diff; git clean -fdq -- src docs
bash out/demo.sh > /tmp/seed_eval_$id.clean.log 2>&1; rc_c=$?
git apply out/patch.diff
echo "tests_with_patch: $t"
echo "demo_patched_rc=$rc_p demo_clean_rc=$rc_c"
cp out/patch.diff out/demo.sh $out/ 2>/dev/null; cp out/notes.md $out/ 2>/dev/null
# the patch may bring unit tests of its own: at least the 137 existing ones pass and none fails
np=$(echo "$t" | sed -n 's/.* \([0-9][0-9]*\) passed; 0 failed.*/\1/p')
if [ $rc_p -eq 0 ] || [ $rc_c -ne 0 ] || [ -z "$np" ] || [ "$np" -lt 137 ]; then echo "NOT CONFIRMED"; fi
# run my checks against it
if [ -n "$(git -C /repo status --porcelain --untracked-files=no)" ]; then echo "/repo not clean"; exit 2; fi
git -C /repo apply $out/patch.diff || { echo "patch does not apply to /repo"; exit 2; }
cd /verif
res=""
for c in $checks; do
  o=$(./check $c --tier quick 2>&1); rc=$?
  first=$(echo "$o" | grep -A1 "^VIOLATION" | sed -n 2p | cut -c1-220)
  echo "check $c rc=$rc :: $first"
  res="$res $c:$rc"
done
git -C /repo checkout -- .; git -C /repo clean -fdq -- src docs     # a patch may add files
echo "RESULT $id tests=[$t] demo_patched=$rc_p demo_clean=$rc_c checks=[$res ]"
