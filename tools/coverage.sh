#!/bin/bash
# usage: tools/coverage.sh [IDs...]   - development aid, not a check.
# Runs the quick tier of the given checks (default: all) on a coverage-instrumented build of /repo's working tree and
# prints, per source file, the lines of fselect that no workload reached. Evidence and replays go to a scratch directory.
cd "$(dirname "$0")/.."
ids=${@:-$(python3 -c "import json;print(' '.join(c['property_id'] for c in json.load(open('MANIFEST.json'))['checks']))")}
out=${COV_OUT:-/dev/shm/fsvcov}
rm -rf $out; mkdir -p $out/raw $out/run
export FSV_COVERAGE=$out/raw FSV_OUT=$out/run
for id in $ids; do ./check $id --tier quick 2>&1 | tail -1 | cut -c1-160; done
sys=$(rustc +nightly --print sysroot)
tools=$(dirname $(find $sys -name llvm-profdata | head -1))
bin=${FSV_CACHE:-/verif/.cache}/target-cov/release/fselect
$tools/llvm-profdata merge -sparse $out/raw/*.profraw -o $out/all.profdata || exit 2
$tools/llvm-cov report $bin -instr-profile=$out/all.profdata --ignore-filename-regex='(\.cargo|rustc|registry)' 2>/dev/null | tee $out/report.txt | cut -c1-200
$tools/llvm-cov show $bin -instr-profile=$out/all.profdata --ignore-filename-regex='(\.cargo|rustc|registry)' --show-line-counts-or-regions > $out/show.txt 2>/dev/null
echo "annotated source: $out/show.txt"
